package parser

// Overlay test (mapped into internal/frontend/parser by `go test -overlay`).
//  - dumps the shipped ActionTable / GotoTable / ProductionsTable and the token map
//  - drives the shipped tables through the exported Parse with a scripted scanner and logging
//    reduce functions, recording scan/call/ret events (same event vocabulary as the traces of
//    generated parsers)

import (
	"encoding/json"
	"fmt"
	"os"
	"testing"

	"github.com/goccmack/gocc/internal/frontend/token"
)

type vEntry struct {
	K string `json:"k"`
	N int    `json:"n"`
}

type vDump struct {
	Tokens []string          `json:"tokens"` // tokens[n] = name of token type n (0 = end of input)
	Act    [][]vEntry        `json:"act"`
	Rec    []bool            `json:"rec"`
	Goto   []map[string]int  `json:"goto"`
	Prods  []map[string]any  `json:"prods"`
}

func TestVerifFEDump(t *testing.T) {
	tm := token.FRONTENDTokens
	d := vDump{}
	for n := 0; n < tm.Len(); n++ {
		d.Tokens = append(d.Tokens, tm.TokenString(token.Type(n)))
	}
	for _, row := range ActionTable {
		r := make([]vEntry, tm.Len())
		for c := range r {
			r[c] = vEntry{"none", 0}
		}
		for ty, a := range row.Actions {
			if int(ty) < 0 || int(ty) >= tm.Len() {
				r = append(r, vEntry{"stray", int(ty)})
				continue
			}
			switch x := a.(type) {
			case Accept:
				r[ty] = vEntry{"accept", 0}
			case Shift:
				r[ty] = vEntry{"shift", int(x)}
			case Reduce:
				r[ty] = vEntry{"reduce", int(x)}
			}
		}
		d.Act = append(d.Act, r)
		d.Rec = append(d.Rec, row.canRecover)
	}
	for _, g := range GotoTable {
		m := map[string]int{}
		for nt, s := range g {
			m[string(nt)] = int(s)
		}
		d.Goto = append(d.Goto, m)
	}
	for _, p := range ProductionsTable {
		d.Prods = append(d.Prods, map[string]any{"str": p.String, "head": string(p.Head), "nsym": p.NumSymbols})
	}
	b, _ := json.Marshal(d)
	if err := os.WriteFile(os.Getenv("VERIF_FE_OUT"), b, 0o644); err != nil {
		t.Fatal(err)
	}
	fmt.Printf("VERIF-STATS states=%d prods=%d\n", len(d.Act), len(d.Prods))
}

type vNode struct{ id int }

type vScanner struct {
	types []int
	i     int
	evs   *[]map[string]any
	toks  map[*token.Token]int
}

func (s *vScanner) Scan() (*token.Token, token.Position) {
	s.i++
	ty := token.EOF
	if s.i <= len(s.types) {
		ty = token.Type(s.types[s.i-1])
	}
	t := token.NewToken(ty, []byte(fmt.Sprintf("L%d", s.i)))
	s.toks[t] = s.i
	*s.evs = append(*s.evs, map[string]any{"ev": "scan", "i": s.i, "t": int(ty)})
	return t, token.Position{Offset: s.i, Line: 1, Column: s.i}
}

func TestVerifFEParse(t *testing.T) {
	b, err := os.ReadFile(os.Getenv("VERIF_FE_IN"))
	if err != nil {
		t.Fatal(err)
	}
	var inputs [][]int
	if err := json.Unmarshal(b, &inputs); err != nil {
		t.Fatal(err)
	}
	var all [][]map[string]any
	for _, in := range inputs {
		var evs []map[string]any
		toks := map[*token.Token]int{}
		calls := 0
		describe := func(a Attrib) map[string]any {
			switch x := a.(type) {
			case nil:
				return map[string]any{"k": "nil", "i": 0}
			case *vNode:
				return map[string]any{"k": "n", "i": x.id}
			case *token.Token:
				return map[string]any{"k": "t", "i": toks[x]}
			}
			return map[string]any{"k": "e", "i": 0, "syms": []any{}, "exp": []int{}}
		}
		// a copy of the shipped production table with logging reduce functions
		prods := make(ProdTab, len(ProductionsTable))
		for pi := range ProductionsTable {
			pi := pi
			prods[pi] = ProductionsTable[pi]
			prods[pi].ReduceFunc = func(X []Attrib) (Attrib, error) {
				calls++
				args := []any{}
				for _, a := range X {
					args = append(args, describe(a))
				}
				evs = append(evs, map[string]any{"ev": "call", "p": pi, "args": args, "n": calls})
				return &vNode{calls}, nil
			}
		}
		func() {
			defer func() {
				if r := recover(); r != nil {
					evs = append(evs, map[string]any{"ev": "panic", "msg": fmt.Sprint(r)})
				}
			}()
			p := NewParser(ActionTable, GotoTable, prods, token.FRONTENDTokens)
			res, err := p.Parse(&vScanner{types: in, evs: &evs, toks: toks})
			ev := map[string]any{"ev": "ret", "ok": err == nil, "res": describe(res)}
			if err != nil {
				ev["errmsg"] = err.Error()
			}
			evs = append(evs, ev)
		}()
		all = append(all, evs)
	}
	ob, _ := json.Marshal(all)
	if err := os.WriteFile(os.Getenv("VERIF_FE_OUT"), ob, 0o644); err != nil {
		t.Fatal(err)
	}
	fmt.Printf("VERIF-STATS parses=%d\n", len(all))
}
