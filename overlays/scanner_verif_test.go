package scanner

// Overlay test (mapped into internal/frontend/scanner by `go test -overlay`): replays the
// reference token streams computed by TLC from GoccScan.tla on the real scanner.

import (
	"encoding/json"
	"fmt"
	"os"
	"testing"

	"github.com/goccmack/gocc/internal/frontend/token"
)

type vTok struct {
	K    string `json:"k"`
	From int    `json:"from"`
	To   int    `json:"to"`
}

func vConcrete(classes []string, salt int) ([]byte, []string) {
	puncts := []byte(":;|.[]{}()")
	spaces := []byte(" \t\r ")
	out := make([]byte, len(classes))
	kinds := make([]string, len(classes))
	for i, c := range classes {
		switch c {
		case "n", "x", "c", "P", "7", "9", "_", "!", "'", "/", "*", "<", ">", "-", "?":
			out[i] = c[0]
		case "dq":
			out[i] = '"'
		case "bq":
			out[i] = '`'
		case "bs":
			out[i] = '\\'
		case "nl":
			out[i] = '\n'
		case "sp":
			out[i] = spaces[(salt+i)%len(spaces)]
		case ":":
			out[i] = puncts[(salt+i)%len(puncts)]
			kinds[i] = string(out[i])
		}
	}
	return out, kinds
}

func TestVerifScanner(t *testing.T) {
	b, err := os.ReadFile(os.Getenv("VERIF_SCAN_TABLE"))
	if err != nil {
		t.Fatal(err)
	}
	var tab struct {
		Texts    [][]json.RawMessage `json:"texts"`
		Composed [][]json.RawMessage `json:"composed"`
	}
	if err := json.Unmarshal(b, &tab); err != nil {
		t.Fatal(err)
	}
	n, bad := 0, 0
	run := func(entries [][]json.RawMessage) {
		for ei, e := range entries {
			var classes []string
			var want []vTok
			json.Unmarshal(e[0], &classes)
			json.Unmarshal(e[1], &want)
			src, punct := vConcrete(classes, ei)
			s := &Scanner{}
			s.Init(src, token.FRONTENDTokens)
			var got []vTok
			for k := 0; k < len(src)+2; k++ {
				tok, pos := s.Scan()
				if tok.Type == token.EOF {
					break
				}
				got = append(got, vTok{token.FRONTENDTokens.TokenString(tok.Type), pos.Offset + 1, pos.Offset + len(tok.Lit)})
			}
			n++
			ok := len(got) == len(want) // the error counter is internal (nothing reads it)
			for i := 0; ok && i < len(want); i++ {
				k := want[i].K
				if k == ":" {
					k = punct[want[i].From-1]
				}
				ok = got[i].K == k && got[i].From == want[i].From && got[i].To == want[i].To
			}
			if !ok {
				bad++
				if bad <= 10 {
					m, _ := json.Marshal(map[string]interface{}{"text": string(src), "classes": classes, "got": got, "want": want, "errors": s.ErrorCount})
					fmt.Printf("VERIF-MISMATCH %s\n", m)
				}
			}
		}
	}
	run(tab.Texts)
	run(tab.Composed)
	fmt.Printf("VERIF-STATS texts=%d mismatches=%d\n", n, bad)
}
