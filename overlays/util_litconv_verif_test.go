package util

// Overlay test (mapped into internal/util by `go test -overlay`). Replays the literals
// enumerated by LitConv.tla on the generator's LitToRune and sweeps every Unicode scalar value
// in every spelling against strconv.UnquoteChar (Go's own literal semantics).

import (
	"encoding/json"
	"fmt"
	"os"
	"strconv"
	"testing"
	"unicode/utf8"
)

func vLit(lit []byte) (r rune, panicked bool) {
	defer func() {
		if recover() != nil {
			panicked = true
		}
	}()
	return LitToRune(lit), false
}

func vSpellings(v rune) []string {
	var s []string
	if v != '\'' && v != '\\' && v != '\n' && utf8.ValidRune(v) {
		s = append(s, "'"+string(v)+"'")
	}
	if v < 256 {
		s = append(s, fmt.Sprintf(`'\x%02x'`, v), fmt.Sprintf(`'\x%02X'`, v), fmt.Sprintf(`'\%03o'`, v))
	}
	if v < 0x10000 {
		s = append(s, fmt.Sprintf(`'\u%04x'`, v), fmt.Sprintf(`'\u%04X'`, v))
	}
	s = append(s, fmt.Sprintf(`'\U%08x'`, v), fmt.Sprintf(`'\U%08X'`, v))
	return s
}

func TestVerifLitConv(t *testing.T) {
	bad := 0
	report := func(lit string, got rune, pan bool, want rune) {
		if bad < 20 {
			b, _ := json.Marshal(map[string]interface{}{"lit": lit, "got": got, "panicked": pan, "want": want, "fn": "util.LitToRune"})
			fmt.Printf("VERIF-MISMATCH %s\n", b)
		}
		bad++
	}
	n := 0
	if path := os.Getenv("VERIF_LITS"); path != "" {
		b, err := os.ReadFile(path)
		if err != nil {
			t.Fatal(err)
		}
		var lits []struct {
			Lit  string `json:"lit"`
			Want rune   `json:"want"`
		}
		if err := json.Unmarshal(b, &lits); err != nil {
			t.Fatal(err)
		}
		for _, l := range lits {
			n++
			if got, pan := vLit([]byte(l.Lit)); pan || got != l.Want {
				report(l.Lit, got, pan, l.Want)
			}
		}
	}
	sweep := 0
	if os.Getenv("VERIF_SWEEP") != "" {
		step := 1
		if s, err := strconv.Atoi(os.Getenv("VERIF_SWEEP")); err == nil && s > 0 {
			step = s
		}
		for v := rune(0); v <= 0x10ffff; v++ {
			if v >= 0xd800 && v <= 0xdfff {
				continue
			}
			if step > 1 && int(v)%step != 0 && v > 0x1000 && v < 0x10f000 && !(v >= 0xd000 && v <= 0xe100) && !(v >= 0xff00 && v <= 0x10100) {
				continue
			}
			for _, sp := range vSpellings(v) {
				sweep++
				want, _, _, err := strconv.UnquoteChar(sp[1:len(sp)-1], '\'')
				if err != nil || want != v {
					report(sp, want, false, v) // the sweep itself would be wrong
					continue
				}
				if got, pan := vLit([]byte(sp)); pan || got != v {
					report(sp, got, pan, v)
				}
			}
		}
		for _, named := range []struct {
			s string
			v rune
		}{{`'\a'`, 7}, {`'\b'`, 8}, {`'\f'`, 12}, {`'\n'`, 10}, {`'\r'`, 13}, {`'\t'`, 9}, {`'\v'`, 11}, {`'\\'`, 92}, {`'\''`, 39}} {
			sweep++
			if got, pan := vLit([]byte(named.s)); pan || got != named.v {
				report(named.s, got, pan, named.v)
			}
		}
	}
	fmt.Printf("VERIF-STATS lits=%d sweep=%d mismatches=%d\n", n, sweep, bad)
}
