package items

// Overlay test (mapped into internal/lexer/items by `go test -overlay`; never written into /repo).
// Replays the outcome table of the TLA+ model Ranges.tla on the real DisjunctRangeSet and
// checks C18's invariants on random interval sequences over the whole rune range.

import (
	"bufio"
	"encoding/json"
	"fmt"
	"math/rand"
	"os"
	"sort"
	"strconv"
	"testing"
)

type vIv [2]int

func vRun(seq []vIv) []vIv {
	rs := NewDisjunctRangeSet()
	for _, x := range seq {
		rs.AddRange(rune(x[0]), rune(x[1]))
	}
	out := []vIv{}
	for _, r := range rs.List() {
		out = append(out, vIv{int(r.From), int(r.To)})
	}
	return out
}

// vCanonical: the coarsest partition of the union of the intervals that respects every
// interval (computed from end points, independently of AddRange).
func vCanonical(seq []vIv) []vIv {
	pts := map[int]bool{}
	for _, x := range seq {
		pts[x[0]] = true
		pts[x[1]+1] = true
	}
	var ps []int
	for p := range pts {
		ps = append(ps, p)
	}
	sort.Ints(ps)
	out := []vIv{}
	for k := 0; k+1 < len(ps); k++ {
		lo, hi := ps[k], ps[k+1]-1
		covered := false
		for _, x := range seq {
			if x[0] <= lo && hi <= x[1] {
				covered = true
			}
		}
		if covered {
			out = append(out, vIv{lo, hi})
		}
	}
	return out
}

func vEqual(a, b []vIv) bool {
	if len(a) != len(b) {
		return false
	}
	for i := range a {
		if a[i] != b[i] {
			return false
		}
	}
	return true
}

func vPerms(xs []vIv, f func([]vIv)) {
	var rec func(k int)
	rec = func(k int) {
		if k == len(xs) {
			f(append([]vIv{}, xs...))
			return
		}
		for i := k; i < len(xs); i++ {
			xs[k], xs[i] = xs[i], xs[k]
			rec(k + 1)
			xs[k], xs[i] = xs[i], xs[k]
		}
	}
	rec(0)
}

func vReport(kind string, seq, got, want []vIv) {
	b, _ := json.Marshal(map[string]interface{}{"kind": kind, "seq": seq, "got": got, "want": want})
	fmt.Printf("VERIF-MISMATCH %s\n", b)
}

func TestVerifRanges(t *testing.T) {
	mismatches := 0
	// single sequence (replay)
	if s := os.Getenv("VERIF_RANGES_SEQ"); s != "" {
		var seq []vIv
		if err := json.Unmarshal([]byte(s), &seq); err != nil {
			t.Fatal(err)
		}
		got, want := vRun(seq), vCanonical(seq)
		if !vEqual(got, want) {
			vReport("replay", seq, got, want)
		}
		fmt.Printf("VERIF-STATS replay=1\n")
		return
	}
	// 1. the model's outcome table, every insertion order (and one duplicate insertion)
	entries, runs := 0, 0
	if path := os.Getenv("VERIF_RANGES_TABLE"); path != "" {
		f, err := os.Open(path)
		if err != nil {
			t.Fatal(err)
		}
		sc := bufio.NewScanner(f)
		sc.Buffer(make([]byte, 1<<20), 1<<24)
		for sc.Scan() {
			var e struct {
				Adds []vIv `json:"adds"`
				Set  []vIv `json:"set"`
			}
			if err := json.Unmarshal(sc.Bytes(), &e); err != nil {
				t.Fatal(err)
			}
			entries++
			vPerms(e.Adds, func(p []vIv) {
				runs++
				if got := vRun(p); !vEqual(got, e.Set) && mismatches < 20 {
					mismatches++
					vReport("model-table", p, got, e.Set)
				}
				// a duplicate of the first interval at the end
				dup := append(append([]vIv{}, p...), p[0])
				runs++
				if got := vRun(dup); !vEqual(got, e.Set) && mismatches < 20 {
					mismatches++
					vReport("model-table-dup", dup, got, e.Set)
				}
			})
		}
		f.Close()
	}
	// 2. random sequences over the whole rune range against the end-point construction
	n, _ := strconv.Atoi(os.Getenv("VERIF_RANGES_RANDOM"))
	seed, _ := strconv.ParseInt(os.Getenv("VERIF_SEED"), 10, 64)
	rng := rand.New(rand.NewSource(seed))
	pool := []int{0, 1, 9, 10, 13, 32, 47, 48, 57, 58, 64, 65, 90, 91, 97, 122, 127, 128, 255, 256, 0x7ff, 0x800, 0xd7ff, 0xe000, 0xfffd, 0xffff, 0x10000, 0x10fffe, 0x10ffff}
	pick := func() int {
		if rng.Intn(4) == 0 {
			return rng.Intn(0x110000)
		}
		p := pool[rng.Intn(len(pool))] + rng.Intn(3) - 1
		if p < 0 {
			p = 0
		}
		if p > 0x10ffff {
			p = 0x10ffff
		}
		return p
	}
	for k := 0; k < n; k++ {
		m := 1 + rng.Intn(7)
		seq := make([]vIv, m)
		for j := range seq {
			a, b := pick(), pick()
			if rng.Intn(3) == 0 {
				b = a
			}
			if a > b {
				a, b = b, a
			}
			seq[j] = vIv{a, b}
			if j > 0 && rng.Intn(8) == 0 {
				seq[j] = seq[rng.Intn(j)] // duplicate
			}
		}
		if got, want := vRun(seq), vCanonical(seq); !vEqual(got, want) && mismatches < 20 {
			mismatches++
			vReport("random", seq, got, want)
		}
	}
	fmt.Printf("VERIF-STATS entries=%d runs=%d random=%d mismatches=%d\n", entries, runs, n, mismatches)
}
