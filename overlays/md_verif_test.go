package md

// Overlay test (mapped into internal/util/md by `go test -overlay`): replays the outcome
// table of the TLA+ model Md.tla on the real loadMd / GetSource.

import (
	"bufio"
	"encoding/json"
	"fmt"
	"math/rand"
	"os"
	"path/filepath"
	"testing"
)

func TestVerifMd(t *testing.T) {
	path := os.Getenv("VERIF_MD_TABLE")
	f, err := os.Open(path)
	if err != nil {
		t.Fatal(err)
	}
	defer f.Close()
	rng := rand.New(rand.NewSource(7))
	ascii := []rune("abz09 \t\r;:|'\"<>/*{}[]().-_\\~!@#$%^&=+,?")
	uni := []rune{0xe9, 0x3b1, 0x65e5, 0x1f600, 0xfffd, 0x80, 0x7ff, 0x800, 0x10ffff}
	sc := bufio.NewScanner(f)
	sc.Buffer(make([]byte, 1<<20), 1<<24)
	n, bad, files := 0, 0, 0
	dir := t.TempDir()
	for sc.Scan() {
		var e struct {
			Inp []string `json:"inp"`
			Out []string `json:"out"`
		}
		if err := json.Unmarshal(sc.Bytes(), &e); err != nil {
			t.Fatal(err)
		}
		in := make([]rune, len(e.Inp))
		for i, k := range e.Inp {
			switch k {
			case "q":
				in[i] = '`'
			case "n":
				in[i] = '\n'
			case "x":
				in[i] = ascii[rng.Intn(len(ascii))]
			case "u":
				in[i] = uni[rng.Intn(len(uni))]
			}
		}
		want := make([]rune, len(in))
		for i, k := range e.Out {
			if k == " " {
				want[i] = ' '
			} else {
				want[i] = in[i]
			}
		}
		// through the exported interface only (the helper behind it may be refactored freely)
		n++
		p := filepath.Join(dir, "x.md")
		os.WriteFile(p, []byte(string(in)), 0o644)
		s, err := GetSource(p)
		files++
		ok := err == nil && s == string(want)
		got := []rune(s)
		if !ok {
			bad++
			if bad <= 10 {
				b, _ := json.Marshal(map[string]interface{}{"in": string(in), "got": string(got), "want": string(want)})
				fmt.Printf("VERIF-MISMATCH %s\n", b)
			}
		}
	}
	fmt.Printf("VERIF-STATS entries=%d files=%d mismatches=%d\n", n, files, bad)
}

func TestVerifMdOne(t *testing.T) {
	in := os.Getenv("VERIF_MD_INPUT")
	want := os.Getenv("VERIF_MD_WANT")
	dir := t.TempDir()
	p := filepath.Join(dir, "x.md")
	os.WriteFile(p, []byte(in), 0o644)
	s, _ := GetSource(p)
	got := []rune(s)
	if string(got) != want {
		b, _ := json.Marshal(map[string]interface{}{"in": in, "got": string(got), "want": want})
		fmt.Printf("VERIF-MISMATCH %s\n", b)
	}
	fmt.Printf("VERIF-STATS one=1\n")
}
