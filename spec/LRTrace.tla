------------------------------ MODULE LRTrace ------------------------------
(***************************************************************************)
(* Trace validation of real generated parsers against LRParse.             *)
(*                                                                         *)
(* batch.json   : as for LRProduct (abstract grammar + real tables)        *)
(* trace.ndjson : events recorded from real runs through the public API:   *)
(*   [ev |-> "new", g, id, dbg]       a new Parser object (dbg: generated  *)
(*                                    with -debug_parser, every driver     *)
(*                                    iteration is logged as a "step")     *)
(*   [ev |-> "parse", input, failat]  Parse called with a scripted scanner *)
(*   [ev |-> "scan", i, t]            the parser called Scan; it got token *)
(*                                    object i of real type t              *)
(*   [ev |-> "step", top, t, k, n]    debug: state on top, look-ahead type,*)
(*                                    action about to be executed          *)
(*   [ev |-> "call", p, args, n]      action expression of production p    *)
(*                                    called with these attributes (n-th   *)
(*                                    call)                                *)
(*   [ev |-> "ret", ok, res, err]     Parse returned                       *)
(* UseIdeal = FALSE: LRParse runs over the REAL tables (is the generated   *)
(* driver the specified driver?).  UseIdeal = TRUE: LRParse runs over the  *)
(* canonical LR(1) tables of the grammar (does the generated parser as a   *)
(* whole behave like the specified machine?); state numbers in events are  *)
(* then not compared.                                                      *)
(* The model is deterministic: validation is linear, mismatches are        *)
(* reported through the invariant Match, a stuck trace as a deadlock.      *)
(***************************************************************************)
EXTENDS LR1, Json, TLC

CONSTANT UseIdeal

Batch == JsonDeserialize("batch.json")
Trace == ndJsonDeserialize("trace.ndjson")
NG == Len(Batch)
Ideal == [i \in 1..NG |-> IF UseIdeal THEN IdealTables(Batch[i].abs) ELSE <<>>]

Col(gi, t) == Batch[gi].col[t]                      \* real token number of terminal t
XInit(gi) == IF UseIdeal THEN 1 ELSE 0
XAct(gi, s, t) == IF UseIdeal THEN Ideal[gi].act[s][t]
                  ELSE LET e == Batch[gi].act[s+1][Col(gi, t) + 1] IN
                       IF e.k = "reduce" THEN [k |-> "reduce", n |-> e.n + 1] ELSE e
XGoto(gi, s, p) == IF UseIdeal THEN Ideal[gi].goto[s][Ideal[gi].phead[p]]
                   ELSE Batch[gi].goto[s+1][Batch[gi].ptab[p].nttype + 1]
XPLen(gi, p) == IF UseIdeal THEN Ideal[gi].plen[p] ELSE Batch[gi].ptab[p].nsym
XHasAct(gi, p) == Batch[gi].abs.prods[p].act
XTerms(gi) == Terminals(Batch[gi].abs)
XErr(gi) == Batch[gi].abs.err

VARIABLES g, input, failAt, pc, stack, nxt, ncall, etok, out,
          l, dbg, id, ok, returned

P == INSTANCE LRParse WITH TInit <- XInit, TAct <- XAct, TGoto <- XGoto, TPLen <- XPLen,
                           THasAct <- XHasAct, TTerms <- XTerms, TErr <- XErr

vars == <<g, input, failAt, pc, stack, nxt, ncall, etok, out, l, dbg, id, ok, returned>>

Ev == Trace[l]
More == l <= Len(Trace)

TInitState ==
  /\ g = 1 /\ input = <<>> /\ failAt = 0 /\ pc = "idle" /\ stack = <<>> /\ nxt = 0
  /\ ncall = 0 /\ etok = 0 /\ out = P!NoOut
  /\ l = 1 /\ dbg = FALSE /\ id = 0 /\ ok = TRUE /\ returned = TRUE

TNew ==
  /\ More /\ Ev.ev = "new" /\ returned
  /\ g' = Ev.g /\ dbg' = Ev.dbg /\ id' = Ev.id /\ l' = l + 1 /\ ok' = TRUE
  /\ pc' = "idle"
  /\ UNCHANGED <<input, failAt, stack, nxt, ncall, etok, out, returned>>

(* Parse(scanner): the first Scan call is part of it *)
ScanMatches(e, i) == e.ev = "scan" /\ e.i = i /\ e.t = (IF P!TokType(i) = 0 THEN 0 ELSE Col(g, P!TokType(i)))

TBegin ==
  /\ More /\ Ev.ev = "parse" /\ returned /\ l + 1 <= Len(Trace)
  /\ P!Begin(g, Ev.input, Ev.failat)
  /\ returned' = FALSE
  /\ l' = l + 2
  /\ ok' = (Trace[l+1].ev = "scan" /\ Trace[l+1].i = 1 /\
            Trace[l+1].t = (IF Len(Ev.input) = 0 THEN Col(g, EOFSym)
                            ELSE IF Ev.input[1] = 0 THEN 0 ELSE Col(g, Ev.input[1])))
  /\ UNCHANGED <<dbg, id>>

(* in debug traces every executed table action is preceded by a "step" event *)
K == IF dbg THEN 1 ELSE 0
StepOK(kind, arg) ==
  ~dbg \/ (/\ Ev.ev = "step" /\ Ev.k = kind
           /\ Ev.t = (IF P!TokType(nxt) = 0 THEN 0 ELSE Col(g, P!TokType(nxt)))
           /\ (UseIdeal \/ Ev.top = P!Top)
           /\ (kind = "reduce" => Ev.n = arg - 1)
           /\ (kind = "shift" /\ ~UseIdeal => Ev.n = arg))

TShift ==
  /\ More /\ l + K <= Len(Trace) /\ P!Shift
  /\ l' = l + K + 1
  /\ ok' = (StepOK("shift", P!Act(P!Top, P!TokType(nxt)).n) /\ ScanMatches(Trace[l+K], nxt'))
  /\ UNCHANGED <<dbg, id, returned>>

DescMatches(d, a) ==
  /\ d.k = a.k /\ d.i = a.i
  /\ a.k = "e" => /\ Len(d.syms) = Len(a.syms)
                  /\ \A j \in 1..Len(a.syms) : d.syms[j].k = a.syms[j].k /\ d.syms[j].i = a.syms[j].i
                  /\ {d.exp[j] : j \in 1..Len(d.exp)} = a.exp

TReduce ==
  /\ More /\ P!Reduce
  /\ LET p == P!Act(P!Top, P!TokType(nxt)).n IN
     IF XHasAct(g, p)
     THEN /\ l + K <= Len(Trace)
          /\ l' = l + K + 1
          /\ ok' = /\ StepOK("reduce", p)
                   /\ LET e == Trace[l+K] args == P!RedArgs(p) IN
                      /\ e.ev = "call" /\ e.p = p - 1 /\ e.n = ncall'
                      /\ Len(e.args) = Len(args)
                      /\ \A j \in 1..Len(args) : DescMatches(e.args[j], args[j])
     ELSE /\ l' = l + K
          /\ ok' = StepOK("reduce", p)
  /\ UNCHANGED <<dbg, id, returned>>

TAccept ==
  /\ More /\ P!Accept
  /\ l' = l + K /\ ok' = StepOK("accept", 0)
  /\ UNCHANGED <<dbg, id, returned>>

TSilent ==
  /\ More /\ (P!Fail \/ P!Recover \/ P!Resume \/ P!GiveUp)
  /\ UNCHANGED <<l, dbg, id, returned>> /\ ok' = TRUE

TSkip ==
  /\ More /\ P!Skip
  /\ l' = l + 1 /\ ok' = ScanMatches(Ev, nxt')
  /\ UNCHANGED <<dbg, id, returned>>

ErrMatches(e) ==
  /\ e.k = "e"
  /\ e.i = out.tok
  /\ e.injected = out.injected
  /\ {e.exp[j] : j \in 1..Len(e.exp)} = out.exp
  /\ e.toktype = (IF P!TokType(out.tok) = 0 THEN 0 ELSE Col(g, P!TokType(out.tok)))
  /\ Len(e.syms) = 0

TRet ==
  /\ More /\ Ev.ev = "ret" /\ pc = "done" /\ ~returned
  /\ returned' = TRUE /\ l' = l + 1
  /\ ok' = /\ Ev.ok = out.ok
           /\ out.ok => (Ev.res.k = out.res.k /\ Ev.res.i = out.res.i)
           /\ ~out.ok => (Ev.err.k = "plain"      \* an unstructured error value (front end)
                          \/ ErrMatches(Ev.err))
  /\ UNCHANGED <<g, input, failAt, pc, stack, nxt, ncall, etok, out, dbg, id>>

TDone == ~More /\ returned /\ UNCHANGED vars

TNext == TNew \/ TBegin \/ TShift \/ TReduce \/ TAccept \/ TSilent \/ TSkip \/ TRet \/ TDone
TSpec == TInitState /\ [][TNext]_vars

Match == ok
=============================================================================
