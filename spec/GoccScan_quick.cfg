INIT Init
NEXT Next
CONSTANT MaxLen = 3
CHECK_DEADLOCK FALSE
