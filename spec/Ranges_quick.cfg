SPECIFICATION Spec
CONSTANTS
  MaxRune = 6
  MaxAdds = 3
INVARIANT SortedDisjointNonEmpty
INVARIANT ExactUnion
INVARIANT Refines
INVARIANT Coarsest
INVARIANT LoopSane
INVARIANT DumpIdle
CHECK_DEADLOCK FALSE
