------------------------------ MODULE TokenMap ------------------------------
(***************************************************************************)
(* C10: the numbering of the generated token package.  tokmaps.json holds, *)
(* per generated grammar, the OBSERVED behaviour of token.TokMap (obtained *)
(* by calling Id and Type in the compiled package) and what the lexer and  *)
(* the parser use:                                                         *)
(*   terms   : the terminals of the grammar (names), without INVALID / EOF *)
(*   id      : id[n+1] = TokMap.Id(n) for n = 0 .. Len(id)-1  (a few more  *)
(*             than there are terminals)                                   *)
(*   typ     : typ[i] = TokMap.Type(terms[i])                              *)
(*   unknown : TokMap.Type(s) for some names s that are no terminals       *)
(*   lexacc  : the Accept numbers found in the lexer's action table        *)
(*             together with the name of the token pattern that the        *)
(*             specification says is recognised there: <<number, name>>    *)
(*   ncols   : width of the parser's action rows (0: no parser)            *)
(*   eofname : the name the package gives end of input                     *)
(***************************************************************************)
EXTENDS Integers, Sequences, FiniteSets, Json, TLC

Maps == JsonDeserialize("tokmaps.json")

N(m) == Len(m.terms) + 2        \* INVALID, end of input, and every terminal

Numbering(m) ==
  /\ m.id[1] = "INVALID"
  /\ m.id[2] = m.eofname
  \* distinct consecutive numbers 2 .. N-1 for the terminals
  /\ {m.typ[i] : i \in 1..Len(m.terms)} = 2..(N(m) - 1)
  /\ \A i, j \in 1..Len(m.terms) : i # j => m.typ[i] # m.typ[j]

MutuallyInverse(m) ==
  /\ \A i \in 1..Len(m.terms) : m.id[m.typ[i] + 1] = m.terms[i]          \* Id(Type(s)) = s
  /\ \A n \in 0..(N(m) - 1) :                                             \* Type(Id(n)) = n
        n >= 2 => \E i \in 1..Len(m.terms) : m.terms[i] = m.id[n+1] /\ m.typ[i] = n

UnknownIsInvalid(m) ==
  /\ \A k \in 1..Len(m.unknown) : m.unknown[k] = 0
  /\ \A n \in N(m)..(Len(m.id) - 1) : m.id[n+1] = "unknown"

LexerUsesTheMap(m) ==
  \A k \in 1..Len(m.lexacc) : LET a == m.lexacc[k] IN
     a[1] >= 2 /\ a[1] < N(m) /\ m.id[a[1] + 1] = a[2]

ParserUsesTheMap(m) == m.ncols = 0 \/ m.ncols >= N(m)

Good(m) == Numbering(m) /\ MutuallyInverse(m) /\ UnknownIsInvalid(m) /\ LexerUsesTheMap(m) /\ ParserUsesTheMap(m)

VARIABLE g
Init == g \in 1..Len(Maps)
Next == FALSE /\ g' = g
NumberingOK == Numbering(Maps[g])
InverseOK == MutuallyInverse(Maps[g])
UnknownOK == UnknownIsInvalid(Maps[g])
LexerOK == LexerUsesTheMap(Maps[g])
ParserOK == ParserUsesTheMap(Maps[g])
=============================================================================
