----------------------------- MODULE GoccSyntax -----------------------------
(***************************************************************************)
(* C14: what makes a grammar file ill-formed.                              *)
(*  - token level: the token sequence is not a sentence of the documented  *)
(*    grammar (spec/gocc2.ebnf, handed in as an abstract grammar G); the   *)
(*    recogniser is the canonical LR(1) machine of LR1.tla run as a        *)
(*    function (C15 shows separately that the shipped tables are that      *)
(*    machine; here nothing of the implementation is used)                 *)
(*  - consistency: a syntax production or regular definition that is used  *)
(*    but not defined; a token, ignored token or regular definition that   *)
(*    is defined twice.                                                    *)
(* cases.json: [g |-> G, cases |-> sequence of                             *)
(*    [toks, lexdefs, regrefs, prodheads, prodrefs]]                       *)
(* verdicts.json: per case [syntax, undefprod, undefreg, dupdef].          *)
(***************************************************************************)
EXTENDS LR1, Json, TLC

In == JsonDeserialize("cases.json")
G  == In.g
(* The tables are computed once, in the initial state, and kept in a state   *)
(* variable (TLC re-evaluates a defined constant of this size on every use). *)
VARIABLES step, tab

RECURSIVE Run(_, _, _)
Run(st, inp, i) ==
  LET t == IF i <= Len(inp) THEN inp[i] ELSE EOFSym
      a == IF t = 0 THEN [k |-> "none", n |-> 0] ELSE tab.act[st[Len(st)]][t]
  IN CASE a.k = "shift"  -> Run(Append(st, a.n), inp, i + 1)
       [] a.k = "reduce" -> LET n == tab.plen[a.n] rest == SubSeq(st, 1, Len(st) - n) IN
                            Run(Append(rest, tab.goto[rest[Len(rest)]][tab.phead[a.n]]), inp, i)
       [] a.k = "accept" -> TRUE
       [] OTHER          -> FALSE

IsSentence(toks) == Run(<<1>>, toks, 1)

SeqSet(s) == {s[i] : i \in 1..Len(s)}
HasDup(s) == \E i, j \in 1..Len(s) : i # j /\ s[i] = s[j]

Verdict(c) ==
  [ syntax    |-> IsSentence(c.toks),
    undefprod |-> ~(SeqSet(c.prodrefs) \subseteq SeqSet(c.prodheads)),
    undefreg  |-> ~(SeqSet(c.regrefs) \subseteq {d[1] : d \in {x \in SeqSet(c.lexdefs) : x[2] = "def"}}),
    dupdef    |-> HasDup([i \in 1..Len(c.lexdefs) |-> c.lexdefs[i][1]]) ]

IllFormed(v) == ~v.syntax \/ v.undefprod \/ v.undefreg \/ v.dupdef

ASSUME G.err = 0
Init == step = 0 /\ tab = IdealTables(G)
Next == /\ step = 0 /\ step' = 1 /\ tab' = tab
        /\ tab.conf = {}        \* the documented grammar is LR(1)
        /\ JsonSerialize("verdicts.json", [i \in 1..Len(In.cases) |-> Verdict(In.cases[i])])
=============================================================================
