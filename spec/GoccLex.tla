------------------------------- MODULE GoccLex -------------------------------
(***************************************************************************)
(* C13: the spellings of one token.  A character literal is determined by  *)
(* its code point, a string literal by its content; the file may spell     *)
(* them in several ways and may separate tokens by any layout.             *)
(*   CharSpellings(v)  every ASCII spelling of the code point v that the   *)
(*                     documented lexical grammar allows (the character    *)
(*                     itself, \x, octal, \u, \U in either case, named     *)
(*                     escape)                                             *)
(*   Layouts           the separators allowed between two tokens           *)
(* TLC checks that every spelling denotes v under Go's literal rule        *)
(* (GoValue of LitConv.tla) and writes the spelling plans the harness      *)
(* applies to grammar files (spellings.json).                              *)
(***************************************************************************)
EXTENDS LitConv

HexChar(d, upper) == IF d < 10 THEN 48 + d ELSE IF upper THEN 55 + d ELSE 87 + d

RECURSIVE HexSeq(_, _, _)
HexSeq(v, n, upper) == IF n = 0 THEN <<>> ELSE Append(HexSeq(v \div 16, n - 1, upper), HexChar(v % 16, upper))
OctSeq(v) == <<48 + (v \div 64), 48 + ((v \div 8) % 8), 48 + (v % 8)>>

NamedOf(v) == {c \in DOMAIN Named : Named[c] = v}

CharSpellings(v) ==
     (IF v >= 32 /\ v <= 126 /\ v # Q /\ v # BS THEN {Wrap(<<v>>)} ELSE {})
\cup {Wrap(<<BS, c>>) : c \in NamedOf(v)}
\cup (IF v < 256 THEN {Wrap(<<BS, 120>> \o HexSeq(v, 2, u)) : u \in BOOLEAN} \cup {Wrap(<<BS>> \o OctSeq(v))} ELSE {})
\cup (IF v < 65536 THEN {Wrap(<<BS, 117>> \o HexSeq(v, 4, u)) : u \in BOOLEAN} ELSE {})
\cup {Wrap(<<BS, 85>> \o HexSeq(v, 8, u)) : u \in BOOLEAN}

(* boundary code points, everything printable in ASCII, and the code points *)
(* of the grammar files at hand (values.json)                               *)
TestValues == (0..127) \cup {128, 255, 256, 2047, 2048, 55295, 57344, 65533, 65535, 65536, 128512, 1114111}
              \cup {cp \in {JsonDeserialize("values.json")[i] : i \in 1..Len(JsonDeserialize("values.json"))} : ValidScalar(cp)}

AllSpellingsDenoteTheValue == \A v \in TestValues : \A s \in CharSpellings(v) : GoValue(s) = v
ASSUME AllSpellingsDenoteTheValue

(* layout between two tokens; "" only where the two tokens cannot fuse *)
Layouts == {" ", "  ", "\t", "\n", "\r\n", " \n\t ", " // a comment ; : |\n", "/* a comment */", " /* * / ** / */ ",
            "/**/", "\n\n// x\n// y\n", " /*\n multi\n line */ ",
            \* stars next to the delimiters: the comment ends at the FIRST star-slash
            "/** doc **/", "/***/", "/****/", " /* a ***/ ", "/*/ */", "/* // */", "//\n", "// /* \n", " /* x **/\t"}

ASSUME JsonSerialize("spellings.json",
         [chars |-> {<<v, CharSpellings(v)>> : v \in TestValues}, layouts |-> Layouts])
=============================================================================
