INIT Init
NEXT Next
VIEW View
INVARIANT LiveAgree
INVARIANT VerdictAgree
INVARIANT DomainOK
CHECK_DEADLOCK FALSE
