----------------------------- MODULE LexProduct -----------------------------
(***************************************************************************)
(* Product of the real DFA of a generated lexer (transition functions and  *)
(* action table read out of the compiled generated code) with the pattern  *)
(* semantics of Regex.tla.  Exploring the whole reachable product decides, *)
(* for one grammar, agreement on every text; a batch file carries many     *)
(* grammars and Init picks one.                                            *)
(*                                                                         *)
(* batch.json: sequence of records                                         *)
(*   abs   : [natoms, defs, toks]   the abstract grammar                   *)
(*   T     : T[q+1][a]  real next state (or -1) of state q on atom a       *)
(*   acc   : acc[q+1]   real ActTab[q].Accept                              *)
(*   ign   : ign[q+1]   TRUE iff real ActTab[q].Ignore # ""                *)
(*   tokmap: tokmap[n+1] = index in abs.toks of the token whose name is    *)
(*           the real token.TokMap.Id(n), 0 if there is none               *)
(*   tatoms: the atoms that can occur in decoded text (all but surrogates) *)
(***************************************************************************)
EXTENDS Regex, Json, TLC

Batch == JsonDeserialize("batch.json")

VARIABLES g,     \* index of the grammar in the batch
          q,     \* state of the real DFA (-1: no transition)
          S,     \* state of the specification automaton
          path   \* atoms read so far (history, hidden by the VIEW)

vars == <<g, q, S, path>>
View == <<g, q, S>>

Abs  == Batch[g].abs
Defs == Abs.defs
Toks == Abs.toks

Init == /\ g \in 1..Len(Batch)
        /\ q = 0
        /\ S = Start(Batch[g].abs.toks)
        /\ path = <<>>

Next == /\ q # -1 /\ S # {}
        /\ \E i \in 1..Len(Batch[g].tatoms) : LET a == Batch[g].tatoms[i] IN
              /\ q' = Batch[g].T[q+1][a]
              /\ S' = Step(Defs, S, a)
              /\ path' = Append(path, a)
        /\ UNCHANGED g

(* The real automaton can continue exactly when the text read is still a   *)
(* prefix of some lexeme.                                                  *)
LiveAgree == (q = -1) <=> (S = {})

(* The real action of a live state is the verdict of the text read.        *)
RealVerdict(qq) ==
  LET acc == Batch[g].acc[qq+1] ign == Batch[g].ign[qq+1] IN
  IF acc = -1 THEN [kind |-> IF ign THEN "ign" ELSE "stuck", tok |-> 0]
  ELSE IF ign THEN [kind |-> "both", tok |-> 0]
  ELSE IF acc = 0 THEN [kind |-> "none", tok |-> 0]
  ELSE IF acc + 1 \in 1..Len(Batch[g].tokmap) THEN [kind |-> "tok", tok |-> Batch[g].tokmap[acc+1]]
  ELSE [kind |-> "badnumber", tok |-> 0]

VerdictAgree ==
  (q # -1 /\ S # {}) =>
     LET v == Verdict(Defs, Toks, S) r == RealVerdict(q) IN
       /\ v.kind = r.kind
       /\ v.kind = "tok" => v.tok = r.tok

(* Input sanity (not verdicts): the domain restriction of the check.       *)
DomainOK == NoNullableToken(Defs, Toks)
=============================================================================
