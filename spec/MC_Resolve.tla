------------------------------ MODULE MC_Resolve ------------------------------
(***************************************************************************)
(* C05, design level: gocc resolves competing actions pairwise while it    *)
(* walks the items of a state (lr1/action.ResolveConflict).  Whatever the  *)
(* order in which the competitors are met, the result must be the rule of  *)
(* the property: shift if a shift competes, otherwise the reduction by the *)
(* production declared first.  Checked for every set of up to MaxComp      *)
(* competitors over productions 2..MaxProd and every permutation of it.    *)
(***************************************************************************)
EXTENDS LR1, TLC

CONSTANTS MaxProd, MaxComp

Actions == {[k |-> "shift", n |-> 0]} \cup {[k |-> "reduce", n |-> p] : p \in 2..MaxProd}
Sets == {A \in SUBSET Actions : Cardinality(A) >= 1 /\ Cardinality(A) <= MaxComp}
Perms(A) == {s \in [1..Cardinality(A) -> A] : \A i, j \in 1..Cardinality(A) : i # j => s[i] # s[j]}

OrderIndependent == \A A \in Sets : \A s \in Perms(A) : FoldPairwise(s) = Resolve(A)
ShiftWins == \A A \in Sets : [k |-> "shift", n |-> 0] \in A => Resolve(A).k = "shift"
EarliestReduceWins == \A A \in Sets : [k |-> "shift", n |-> 0] \notin A =>
                         (Resolve(A).k = "reduce" /\ \A a \in A : Resolve(A).n <= a.n)

ASSUME OrderIndependent
ASSUME ShiftWins
ASSUME EarliestReduceWins
ASSUME PrintT(<<"RESOLVE", Cardinality(Sets), Cardinality(UNION {Perms(A) : A \in Sets})>>)

VARIABLE x
Init == x = 0
Next == FALSE /\ x' = x
=============================================================================
