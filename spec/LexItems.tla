------------------------------- MODULE LexItems -------------------------------
(***************************************************************************)
(* gocc's ACTUAL construction of the lexer automaton (package              *)
(* internal/lexer/items: Item.Emoves, ItemList.Closure, ItemSet.Next,      *)
(* ItemSet.dependentsClosure, ItemSet.Action), as opposed to the semantics *)
(* the property C01 states (Regex.tla).  Differences between the two are   *)
(* the design-level content of known finding F4; on the classes of         *)
(* regular definitions the C01 check draws from, the two must agree.       *)
(*                                                                         *)
(* gocc's items are dotted positions in a production.  Here an item is     *)
(*   [id, sym, cont]: production id, the symbol expected next and what      *)
(*   remains of the production after it (two positions with the same        *)
(*   remainder behave alike and are identified), or                         *)
(*   [id, sym |-> End, cont |-> Eps]: the reduce item of production id.     *)
(* Symbols: a set leaf [k |-> "set", s], '.' [k |-> "dot"], a use of a      *)
(* regular definition [k |-> "ref", n].  A use of a regular definition is  *)
(* a symbol of its own: gocc does not expand it.                            *)
(* prods: sequence of [name, kind ("tok", "ign", "def"), lit, idx, re] in   *)
(* source order (string literals of the syntax part last).                  *)
(***************************************************************************)
EXTENDS Regex

End == [k |-> "end"]

(* nullable when a use of a regular definition counts as a symbol *)
RECURSIVE NullableS(_)
NullableS(r) ==
  CASE r.k = "eps"  -> TRUE
    [] r.k \in {"set", "dot", "ref"} -> FALSE
    [] r.k = "cat"  -> NullableS(r.l) /\ NullableS(r.r)
    [] r.k = "alt"  -> NullableS(r.l) \/ NullableS(r.r)
    [] r.k \in {"star", "opt"} -> TRUE

(* the basic shift items reachable from the start of r by epsilon moves:   *)
(* pairs <<symbol, remainder>>                                             *)
RECURSIVE Heads(_)
Heads(r) ==
  CASE r.k = "eps"  -> {}
    [] r.k \in {"set", "dot", "ref"} -> {<<r, Eps>>}
    [] r.k = "cat"  -> {<<h[1], Cat(h[2], r.r)>> : h \in Heads(r.l)}
                       \cup (IF NullableS(r.l) THEN Heads(r.r) ELSE {})
    [] r.k = "alt"  -> Heads(r.l) \cup Heads(r.r)
    [] r.k = "star" -> {<<h[1], Cat(h[2], r)>> : h \in Heads(r.x)}
    [] r.k = "opt"  -> Heads(r.x)

(* Item.Emoves of the position "id : . r" *)
Emoves(id, r) ==
  {[id |-> id, sym |-> h[1], cont |-> h[2]] : h \in Heads(r)}
  \cup (IF NullableS(r) THEN {[id |-> id, sym |-> End, cont |-> Eps]} ELSE {})

IsReduce(it) == it.sym.k = "end"

ProdOfName(prods, n) == CHOOSE i \in 1..Len(prods) : prods[i].name = n

(* ItemList.ContainShift(id): a shift item of production id *)
ContainShift(L, id) == \E it \in L : it.id = id /\ ~IsReduce(it)

(* ItemList.Closure: items of a regular definition are added for every item *)
(* that expects it, UNLESS the list the closure started from already holds  *)
(* a shift item of that definition (an instance in progress)                *)
RECURSIVE ClosureFrom(_, _, _)
ClosureFrom(prods, L0, C) ==
  LET need == {ProdOfName(prods, it.sym.n) : it \in {x \in C : x.sym.k = "ref"}}
      new  == UNION {IF ContainShift(L0, d) THEN {} ELSE Emoves(d, prods[d].re) : d \in need}
  IN IF new \subseteq C THEN C ELSE ClosureFrom(prods, L0, C \cup new)
ItemClosure(prods, L) == ClosureFrom(prods, L, L)

(* ItemSet.dependentsClosure: a moved item of a regular definition takes     *)
(* along EVERY item of the set that waits for that definition: advanced past *)
(* it when the definition is complete, unchanged while it is in progress     *)
RECURSIVE DepFrom(_, _, _)
DepFrom(prods, I, X) ==
  LET add == UNION { LET waiting == {t \in I : t.sym.k = "ref" /\ t.sym.n = prods[x.id].name} IN
                     IF IsReduce(x) THEN UNION {Emoves(t.id, t.cont) : t \in waiting} ELSE waiting
                   : x \in X }
  IN IF add \subseteq X THEN X ELSE DepFrom(prods, I, X \cup add)

Moved(I, a) == UNION {Emoves(it.id, it.cont) : it \in {x \in I : x.sym.k = "set" /\ InSeq(a, x.sym.s)}}
MovedDot(I) == UNION {Emoves(it.id, it.cont) : it \in {x \in I : x.sym.k = "dot"}}

After(prods, I, M) == IF M = {} THEN {} ELSE ItemClosure(prods, DepFrom(prods, I, M))

(* the generated transition function: explicit classes first, '.' as default *)
ItemStep(prods, I, a) ==
  IF \E it \in I : it.sym.k = "set" /\ InSeq(a, it.sym.s) THEN After(prods, I, Moved(I, a))
  ELSE IF \E it \in I : it.sym.k = "dot" THEN After(prods, I, MovedDot(I))
  ELSE {}

ItemStart(prods) ==
  ItemClosure(prods, UNION {Emoves(i, prods[i].re) : i \in {j \in 1..Len(prods) : prods[j].kind # "def"}})

(* ItemSet.Action *)
ItemVerdict(prods, I) ==
  LET D == {it.id : it \in {x \in I : IsReduce(x) /\ prods[x.id].kind # "def"}} IN
  IF D = {} THEN [kind |-> "none", tok |-> 0]
  ELSE LET w == IF \E i \in D : prods[i].lit THEN CHOOSE i \in D : prods[i].lit
                ELSE CHOOSE i \in D : \A j \in D : prods[i].idx <= prods[j].idx
       IN [kind |-> prods[w].kind, tok |-> w]
=============================================================================
