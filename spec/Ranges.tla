-------------------------------- MODULE Ranges --------------------------------
(***************************************************************************)
(* DisjunctRangeSet.AddRange (internal/lexer/items/disjunctrangeset.go)    *)
(* transcribed case by case (the eleven cases are labelled as in the       *)
(* source) as a state machine, and property C18 as invariants.             *)
(* `set' is the sorted list of rune classes; i, from, to are the loop      *)
(* variables of AddRange (i is 1-based here).  Ghost: `adds', the set of   *)
(* intervals added so far.                                                 *)
(***************************************************************************)
EXTENDS Integers, Sequences, FiniteSets, TLC, Json

CONSTANTS MaxRune, MaxAdds

VARIABLES set, pc, i, from, to, adds
vars == <<set, pc, i, from, to, adds>>

Iv(f, t) == [f |-> f, t |-> t]
ValidIntervals == {x \in [f : 0..MaxRune, t : 0..MaxRune] : x.f <= x.t}

InsertAt(s, k, x) == SubSeq(s, 1, k - 1) \o <<x>> \o SubSeq(s, k, Len(s))   \* insertRange(k-1, ..)
SetAt(s, k, x) == [s EXCEPT ![k] = x]

Init == set = <<>> /\ pc = "idle" /\ i = 1 /\ from = 0 /\ to = 0 /\ adds = {}

Call == /\ pc = "idle" /\ Cardinality(adds) < MaxAdds
        /\ \E x \in ValidIntervals :
              /\ x \notin adds        \* adding the same interval twice is covered by case 6
              /\ from' = x.f /\ to' = x.t /\ adds' = adds \cup {x}
        /\ pc' = "loop" /\ i' = 1 /\ UNCHANGED set

(* the same interval again (duplicate intervals are part of the quantifier) *)
CallDup == /\ pc = "idle" /\ adds # {}
           /\ \E x \in adds : from' = x.f /\ to' = x.t
           /\ pc' = "loop" /\ i' = 1 /\ UNCHANGED <<set, adds>>

InLoop == pc = "loop" /\ i <= Len(set) /\ from <= to
Rng == set[i]

Case1 == /\ InLoop /\ from < Rng.f /\ to < Rng.f
         /\ set' = InsertAt(set, i, Iv(from, to)) /\ i' = i + 2 /\ from' = Rng.t + 1
         /\ UNCHANGED <<pc, to, adds>>
Case2 == /\ InLoop /\ from < Rng.f /\ to >= Rng.f /\ to < Rng.t
         /\ set' = InsertAt(InsertAt(SetAt(set, i, Iv(from, Rng.f - 1)), i + 1, Iv(Rng.f, to)), i + 2, Iv(to + 1, Rng.t))
         /\ i' = i + 3 /\ from' = Rng.t + 1 /\ UNCHANGED <<pc, to, adds>>
Case3 == /\ InLoop /\ from < Rng.f /\ to = Rng.t
         /\ set' = InsertAt(set, i, Iv(from, Rng.f - 1)) /\ i' = i + 2 /\ from' = Rng.t + 1
         /\ UNCHANGED <<pc, to, adds>>
Case4 == /\ InLoop /\ from < Rng.f /\ to > Rng.t
         /\ set' = InsertAt(set, i, Iv(from, Rng.f - 1)) /\ i' = i + 2 /\ from' = Rng.t + 1
         /\ UNCHANGED <<pc, to, adds>>
Case5 == /\ InLoop /\ from = Rng.f /\ to < Rng.t
         /\ set' = InsertAt(SetAt(set, i, Iv(Rng.f, to)), i + 1, Iv(to + 1, Rng.t))
         /\ i' = i + 2 /\ from' = Rng.t + 1 /\ UNCHANGED <<pc, to, adds>>
Case6 == /\ InLoop /\ from = Rng.f /\ to = Rng.t
         /\ i' = i + 1 /\ from' = Rng.t + 1 /\ UNCHANGED <<set, pc, to, adds>>
Case7 == /\ InLoop /\ from = Rng.f /\ to > Rng.t
         /\ i' = i + 1 /\ from' = Rng.t + 1 /\ UNCHANGED <<set, pc, to, adds>>
Case8 == /\ InLoop /\ from > Rng.t
         /\ i' = i + 1 /\ UNCHANGED <<set, pc, from, to, adds>>
Case9 == /\ InLoop /\ from > Rng.f /\ from <= Rng.t /\ to < Rng.t
         /\ set' = InsertAt(InsertAt(SetAt(set, i, Iv(Rng.f, from - 1)), i + 1, Iv(from, to)), i + 2, Iv(to + 1, Rng.t))
         /\ i' = i + 3 /\ from' = Rng.t + 1 /\ UNCHANGED <<pc, to, adds>>
Case10 == /\ InLoop /\ from > Rng.f /\ from <= Rng.t /\ to = Rng.t
          /\ set' = InsertAt(SetAt(set, i, Iv(Rng.f, from - 1)), i + 1, Iv(from, to))
          /\ i' = i + 2 /\ from' = Rng.t + 1 /\ UNCHANGED <<pc, to, adds>>
Case11 == /\ InLoop /\ from > Rng.f /\ from <= Rng.t /\ to > Rng.t
          /\ set' = InsertAt(SetAt(set, i, Iv(Rng.f, from - 1)), i + 1, Iv(from, Rng.t))
          /\ i' = i + 2 /\ from' = Rng.t + 1 /\ UNCHANGED <<pc, to, adds>>

(* after the loop: what is left of the interval lies behind every class *)
Finish == /\ pc = "loop" /\ ~(i <= Len(set) /\ from <= to)
          /\ set' = IF from <= to THEN Append(set, Iv(from, to)) ELSE set
          /\ pc' = "idle" /\ UNCHANGED <<i, from, to, adds>>

Next == Call \/ CallDup \/ Case1 \/ Case2 \/ Case3 \/ Case4 \/ Case5 \/ Case6 \/ Case7 \/ Case8
        \/ Case9 \/ Case10 \/ Case11 \/ Finish
Spec == Init /\ [][Next]_vars

----------------------------------------------------------------------------
Points(x) == x.f .. x.t
Idle == pc = "idle"

SortedDisjointNonEmpty ==
  Idle => /\ \A k \in 1..Len(set) : set[k].f <= set[k].t
          /\ \A k \in 1..(Len(set) - 1) : set[k].t < set[k+1].f

ExactUnion ==
  Idle => UNION {Points(set[k]) : k \in 1..Len(set)} = UNION {Points(x) : x \in adds}

(* every added range is exactly a union of classes: a class lies inside an *)
(* added range or is disjoint from it                                      *)
Refines ==
  Idle => \A x \in adds : \A k \in 1..Len(set) :
             Points(set[k]) \subseteq Points(x) \/ Points(set[k]) \cap Points(x) = {}

(* the classes are the coarsest such partition: two neighbouring points of *)
(* one class are never separated by an added range, and neighbouring       *)
(* classes ARE separated by some added range (no needless split)           *)
Coarsest ==
  Idle => \A k \in 1..(Len(set) - 1) :
             set[k].t + 1 = set[k+1].f =>
                \E x \in adds : (set[k].t \in Points(x)) # (set[k+1].f \in Points(x))

(* the loop variables stay in range *)
LoopSane == pc = "loop" => i >= 1 /\ i <= Len(set) + 1

(* outcome table for the replay on the real DisjunctRangeSet *)
DumpIdle == Idle /\ adds # {} =>
  PrintT(<<"RNG", ToJson([adds |-> {<<x.f, x.t>> : x \in adds}, set |-> [k \in 1..Len(set) |-> <<set[k].f, set[k].t>>]])>>)
=============================================================================
