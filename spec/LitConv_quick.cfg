INIT Init
NEXT Next
CONSTANT FullDigits = FALSE
CHECK_DEADLOCK FALSE
