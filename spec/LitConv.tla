------------------------------- MODULE LitConv -------------------------------
(***************************************************************************)
(* C20: rune literals.  A literal is a sequence of bytes (ASCII here; the  *)
(* all-code-points sweep over UTF-8 encoded characters is done outside     *)
(* TLC, see DESIGN.md).                                                    *)
(*   GoValue    the code point the Go language specification assigns to a  *)
(*              valid rune literal                                         *)
(*   GoccValue  a transcription of util.RuneValue / escapeCharVal (the     *)
(*              generator's util.LitToRune is the same code); -1 = panic   *)
(* TLC enumerates every valid literal whose digits come from Digits (all   *)
(* boundary values) and checks that the two agree; the enumerated literals *)
(* with their values are written to litconv.json and replayed on the real  *)
(* functions and through a one-token grammar.                              *)
(***************************************************************************)
EXTENDS Integers, Sequences, FiniteSets, Json, TLC

Q  == 39   \* '
BS == 92   \* \

CONSTANT FullDigits   \* TRUE: every hexadecimal digit in both cases in \x and \u escapes

(* digit characters used in enumerated escapes: 0 1 3 7 8 9 a f A F D d, or all of them *)
HexDigitChars == IF FullDigits THEN (48..57) \cup (97..102) \cup (65..70)
                 ELSE {48, 49, 51, 55, 56, 57, 97, 102, 65, 70, 68, 100}
OctDigitChars == {48, 49, 51, 55}

DigitVal(c) == IF c >= 48 /\ c <= 57 THEN c - 48
               ELSE IF c >= 97 /\ c <= 102 THEN c - 97 + 10
               ELSE IF c >= 65 /\ c <= 70 THEN c - 65 + 10
               ELSE 16

RECURSIVE NumVal(_, _)
NumVal(ds, base) == IF ds = <<>> THEN 0 ELSE NumVal(SubSeq(ds, 1, Len(ds) - 1), base) * base + DigitVal(ds[Len(ds)])

Named == (97 :> 7) @@ (98 :> 8) @@ (102 :> 12) @@ (110 :> 10) @@ (114 :> 13) @@ (116 :> 9) @@ (118 :> 11)
         @@ (92 :> 92) @@ (39 :> 39)

ValidScalar(x) == x >= 0 /\ x <= 1114111 /\ ~(x >= 55296 /\ x <= 57343)

(* ---- the Go language rule (valid literals only; -2 = not a valid literal) *)
GoValue(lit) ==
  LET n == Len(lit) IN
  IF n < 3 \/ lit[1] # Q \/ lit[n] # Q THEN -2
  ELSE IF lit[2] # BS
       THEN IF n = 3 /\ lit[2] # Q /\ lit[2] # 10 THEN lit[2] ELSE -2
       ELSE LET c == lit[3] body == SubSeq(lit, 4, n - 1) IN
            IF c \in DOMAIN Named THEN (IF n = 4 THEN Named[c] ELSE -2)
            ELSE IF c >= 48 /\ c <= 55
                 THEN LET ds == SubSeq(lit, 3, n - 1) IN
                      IF Len(ds) = 3 /\ (\A k \in 1..3 : ds[k] >= 48 /\ ds[k] <= 55) /\ NumVal(ds, 8) <= 255
                      THEN NumVal(ds, 8) ELSE -2
            ELSE IF c = 120 THEN (IF Len(body) = 2 /\ (\A k \in 1..2 : DigitVal(body[k]) < 16) THEN NumVal(body, 16) ELSE -2)
            ELSE IF c = 117 THEN (IF Len(body) = 4 /\ (\A k \in 1..4 : DigitVal(body[k]) < 16) /\ ValidScalar(NumVal(body, 16)) THEN NumVal(body, 16) ELSE -2)
            ELSE IF c = 85 THEN (IF Len(body) = 8 /\ (\A k \in 1..8 : DigitVal(body[k]) < 16) /\ ValidScalar(NumVal(body, 16)) THEN NumVal(body, 16) ELSE -2)
            ELSE -2

(* ---- transcription of RuneValue / escapeCharVal (ASCII literals) ------- *)
RECURSIVE DigitLoop(_, _, _, _, _)
(* for ; i > 0 && offset < len(lit)-1; i-- { ... }   returns <<x, ok>>      *)
DigitLoop(lit, i, offset, base, x) ==
  IF i > 0 /\ offset < Len(lit) - 1        \* offset is 0-based in the code; lit[offset+1] here
  THEN LET d == DigitVal(lit[offset + 1]) IN
       IF d >= base THEN <<0, FALSE>>
       ELSE DigitLoop(lit, i - 1, offset + 1, base, x * base + d)
  ELSE <<x, TRUE>>

GoccValue(lit) ==
  IF lit[2] # BS
  THEN IF Len(lit) - 2 = 1 THEN lit[2] ELSE -1
  ELSE LET c == lit[3] IN
       IF c \in DOMAIN Named THEN Named[c]
       ELSE LET spec == IF c >= 48 /\ c <= 55 THEN <<3, 8, 255, 2>>
                        ELSE IF c = 120 THEN <<2, 16, 255, 3>>
                        ELSE IF c = 117 THEN <<4, 16, 1114111, 3>>
                        ELSE IF c = 85 THEN <<8, 16, 1114111, 3>>
                        ELSE <<0, 0, 0, 0>>
            IN IF spec[1] = 0 THEN -1
               ELSE LET r == DigitLoop(lit, spec[1], spec[4], spec[2], 0) IN
                    IF ~r[2] THEN -1
                    ELSE IF r[1] > spec[3] \/ (r[1] >= 55296 /\ r[1] < 57344) THEN -1
                    ELSE r[1]

(* ---- the enumerated literals ------------------------------------------- *)
Wrap(body) == <<Q>> \o body \o <<Q>>
Plain == {Wrap(<<c>>) : c \in (32..126) \ {Q, BS}}
NamedLits == {Wrap(<<BS, c>>) : c \in DOMAIN Named}
OctLits == {Wrap(<<BS, a, b, c>>) : a \in (IF FullDigits THEN 48..51 ELSE {48, 49, 51}),
                                    b \in (IF FullDigits THEN 48..55 ELSE OctDigitChars), c \in (IF FullDigits THEN 48..55 ELSE OctDigitChars)}
HexLits == {Wrap(<<BS, 120, a, b>>) : a \in HexDigitChars, b \in HexDigitChars}
ULits == {Wrap(<<BS, 117, a, b, c, d>>) : a \in HexDigitChars, b \in HexDigitChars,
                                          c \in (IF FullDigits THEN HexDigitChars ELSE {48, 55, 56, 70, 102}), d \in {48, 70, 102, 68}}
BigULits == {Wrap(<<BS, 85, 48, 48, a, b, c, d, e, f>>) :
               a \in {48, 49}, b \in {48, 70, 102}, c \in {48, 68, 100, 70}, d \in {55, 56, 70, 48}, e \in {48, 70}, f \in {48, 70, 102}}

Candidates == Plain \cup NamedLits \cup OctLits \cup HexLits \cup ULits \cup BigULits
ValidLits == {l \in Candidates : GoValue(l) >= 0}

Agree == \A l \in ValidLits : GoccValue(l) = GoValue(l)
(* what is not a valid Go literal is never silently given a value that a valid one has... *)
ASSUME Agree
ASSUME JsonSerialize("litconv.json", [n |-> Cardinality(ValidLits), cand |-> Cardinality(Candidates),
                                      lits |-> {<<l, GoValue(l)>> : l \in ValidLits}])
VARIABLE x
Init == x = 0
Next == FALSE /\ x' = x
=============================================================================
