------------------------------- MODULE LexRef -------------------------------
(***************************************************************************)
(* Reference tokenizer: property C01 and C08 written directly over the     *)
(* pattern semantics of Regex.tla, with no automaton numbering, no cursor  *)
(* bookkeeping and no line/column counters.                                *)
(*                                                                         *)
(* A source text is a sequence of rune records [a, w, o, k]: atom, width   *)
(* in bytes, byte offset, kind ("nl", "cr", "tab", "o"); it is the result  *)
(* of decoding the bytes with utf8.DecodeRune (an undecodable byte is the  *)
(* rune U+FFFD of width 1).                                                *)
(***************************************************************************)
EXTENDS Regex

TotalBytes(src) == IF Len(src) = 0 THEN 0 ELSE src[Len(src)].o + src[Len(src)].w

(* byte offset of the rune boundary after n runes *)
ByteOff(src, n) == IF n < Len(src) THEN src[n+1].o ELSE TotalBytes(src)

(* C08: line and column of the rune boundary after n runes *)
RECURSIVE RefPos(_, _)
RefPos(src, n) ==
  IF n = 0 THEN <<1, 1>>
  ELSE LET p == RefPos(src, n-1) k == src[n].k IN
       CASE k = "nl"  -> <<p[1] + 1, 1>>
         [] k = "cr"  -> <<p[1], 1>>
         [] k = "tab" -> <<p[1], p[2] + 4>>
         [] OTHER     -> <<p[1], p[2] + 1>>

Tok(src, tid, from, to) ==
  LET p == RefPos(src, from) IN
  [tid |-> tid, from |-> from, to |-> to,
   off |-> ByteOff(src, from), endoff |-> ByteOff(src, to), line |-> p[1], col |-> p[2]]

(* token identity: index in toks, or one of *)
EOFName     == -1
INVALIDName == 0

(* One Scan call starting after `start` runes: the token and the number of *)
(* runes consumed afterwards, <<token, next>>.                             *)
RECURSIVE RefRun(_, _, _, _, _, _)
RefRun(defs, toks, src, S, start, j) ==
  IF j >= Len(src)
  THEN \* the input ended while the text read was still a viable prefix
       LET v == Verdict(defs, toks, S) IN
       IF v.kind = "tok" THEN <<Tok(src, v.tok, start, j), j>>
       ELSE <<Tok(src, INVALIDName, start, j), j>>
  ELSE LET S1 == Step(defs, S, src[j+1].a) IN
       IF S1 = {}
       THEN \* src[j+1] makes the text unmatchable
            LET v == IF j > start THEN Verdict(defs, toks, S) ELSE [kind |-> "none", tok |-> 0] IN
            IF v.kind = "tok" THEN <<Tok(src, v.tok, start, j), j>>
            ELSE <<Tok(src, INVALIDName, start, j+1), j+1>>
       ELSE IF Verdict(defs, toks, S1).kind = "ign"
            THEN \* ignored text is skipped as soon as it is complete
                 IF j + 1 >= Len(src) THEN <<Tok(src, EOFName, j+1, j+1), j+1>>
                 ELSE RefRun(defs, toks, src, Start(toks), j+1, j+1)
            ELSE RefRun(defs, toks, src, S1, start, j+1)

RefScan(defs, toks, src, start) ==
  IF start >= Len(src) THEN <<Tok(src, EOFName, Len(src), Len(src)), Len(src)>>
  ELSE RefRun(defs, toks, src, Start(toks), start, start)

(* The whole token stream, up to and including the first end-of-input token *)
RECURSIVE RefTokens(_, _, _, _)
RefTokens(defs, toks, src, start) ==
  LET r == RefScan(defs, toks, src, start) IN
  IF r[1].tid = EOFName THEN <<r[1]>>
  ELSE <<r[1]>> \o RefTokens(defs, toks, src, r[2])
=============================================================================
