SPECIFICATION TSpec
CONSTANT UseIdeal = FALSE
INVARIANT Match
CHECK_DEADLOCK TRUE
