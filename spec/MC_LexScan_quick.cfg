SPECIFICATION Spec
CONSTANTS
  MaxLen = 3
  Kinds = {"nl", "cr", "tab", "o"}
  Widths = {1, 3}
  TokTypes = {2, 3}
  MaxCalls = 5
INVARIANT PosExact
INVARIANT CursorExact
INVARIANT Tiling
INVARIANT LastWins
PROPERTY EOFSticky
PROPERTY ResetFresh
PROPERTY Progress
CHECK_DEADLOCK FALSE
