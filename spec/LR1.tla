--------------------------------- MODULE LR1 ---------------------------------
(***************************************************************************)
(* Canonical LR(1): items, closure, goto, action sets, conflicts and       *)
(* gocc's -a resolution rule (C02, C04, C05), plus the ideal parse tables  *)
(* of a grammar as a value (states numbered by a breadth-first walk).      *)
(* An item is [p |-> production, d |-> dot position, la |-> look-ahead].   *)
(***************************************************************************)
EXTENDS CFG

Body(G, it) == G.prods[it.p].b
AtEnd(G, it) == it.d = Len(Body(G, it))
NextSym(G, it) == Body(G, it)[it.d + 1]

RECURSIVE ClosureFix(_, _, _, _)
ClosureFix(G, F, N, I) ==
  LET new == UNION { IF ~AtEnd(G, it) /\ IsNT(G, NextSym(G, it))
                     THEN LET b    == Body(G, it)
                              rest == SubSeq(b, it.d + 2, Len(b))
                              las  == FirstSeq(G, F, N, rest) \cup
                                      (IF SeqNullable(N, rest) THEN {it.la} ELSE {})
                          IN {[p |-> j, d |-> 0, la |-> t] : j \in ProdsOf(G, NextSym(G, it)), t \in las}
                     ELSE {} : it \in I }
  IN IF new \subseteq I THEN I ELSE ClosureFix(G, F, N, I \cup new)

Closure(G, F, N, I) == ClosureFix(G, F, N, I)

Goto(G, F, N, I, X) ==
  Closure(G, F, N, {[p |-> it.p, d |-> it.d + 1, la |-> it.la] :
                      it \in {i2 \in I : ~AtEnd(G, i2) /\ NextSym(G, i2) = X}})

InitialItems(G, F, N) == Closure(G, F, N, {[p |-> 1, d |-> 0, la |-> EOFSym]})

(* the actions the canonical automaton admits in state I on terminal t *)
ActionSet(G, I, t) ==
     {[k |-> "shift", n |-> 0] : it \in {i2 \in I : ~AtEnd(G, i2) /\ NextSym(G, i2) = t}}
\cup {IF it.p = 1 THEN [k |-> "accept", n |-> 0] ELSE [k |-> "reduce", n |-> it.p] :
        it \in {i2 \in I : AtEnd(G, i2) /\ i2.la = t}}

Conflict(G, I, t) == Cardinality(ActionSet(G, I, t)) > 1

(* gocc -a: shift if a shift competes, otherwise the production declared first *)
Resolve(A) ==
  IF [k |-> "shift", n |-> 0] \in A THEN [k |-> "shift", n |-> 0]
  ELSE CHOOSE x \in A : \A y \in A : x.n <= y.n

(* a conflict that -a refuses: accepting competes with something else *)
AcceptConflict(A) == Cardinality(A) > 1 /\ [k |-> "accept", n |-> 0] \in A

(* gocc's pairwise rule (lr1/action.ResolveConflict), folded over any order *)
Pairwise(x, y) ==
  IF x.k = "shift" THEN x ELSE IF y.k = "shift" THEN y
  ELSE IF x.n < y.n THEN x ELSE y
RECURSIVE FoldPairwise(_)
FoldPairwise(s) == IF Len(s) = 1 THEN s[1] ELSE Pairwise(FoldPairwise(SubSeq(s, 1, Len(s) - 1)), s[Len(s)])

(* states that can shift the error symbol *)
CanShiftError(G, I) == G.err # 0 /\ \E it \in I : ~AtEnd(G, it) /\ NextSym(G, it) = G.err

(* ---------------- the ideal tables as a value -------------------------- *)
(* Breadth-first numbering of the canonical collection: sets is a sequence *)
(* of item sets, sets[1] the initial one.                                  *)
Symbols(G) == 2..(G.nt + G.nn + 1)   \* every symbol that can label a transition

RECURSIVE Collect(_, _, _, _, _)
Collect(G, F, N, sets, i) ==
  IF i > Len(sets) THEN sets
  ELSE LET targets == {Goto(G, F, N, sets[i], X) : X \in Symbols(G)} \ {{}}
           known   == {sets[k] : k \in 1..Len(sets)}
           fresh   == targets \ known
           RECURSIVE AppendAll(_, _)
           AppendAll(sq, S) == IF S = {} THEN sq ELSE LET x == CHOOSE y \in S : TRUE IN AppendAll(Append(sq, x), S \ {x})
       IN Collect(G, F, N, AppendAll(sets, fresh), i + 1)

IndexOf(sets, I) == CHOOSE k \in 1..Len(sets) : sets[k] = I

(* Tables: act[s][t] is a record [k, n] with k in shift/reduce/accept/none *)
(* (n: target state for shift, production for reduce), resolved by         *)
(* Resolve where actions compete; goto[s][X] for X a nonterminal or 0.     *)
IdealTables(G) ==
  LET F    == FirstSets(G)
      N    == NullableSet(G)
      sets == Collect(G, F, N, <<InitialItems(G, F, N)>>, 1)
      ns   == Len(sets)
      tgt(s, X) == LET J == Goto(G, F, N, sets[s], X) IN IF J = {} THEN 0 ELSE IndexOf(sets, J)
  IN [ n    |-> ns,
       act  |-> [s \in 1..ns |-> [t \in Terminals(G) |->
                   LET A == ActionSet(G, sets[s], t) IN
                   IF A = {} THEN [k |-> "none", n |-> 0]
                   ELSE LET a == Resolve(A) IN
                        IF a.k = "shift" THEN [k |-> "shift", n |-> tgt(s, t)] ELSE a]],
       goto |-> [s \in 1..ns |-> [X \in NonTerminals(G) |-> tgt(s, X)]],
       rec  |-> [s \in 1..ns |-> CanShiftError(G, sets[s])],
       conf |-> {<<s, t>> \in (1..ns) \X Terminals(G) : Conflict(G, sets[s], t)},
       accconf |-> \E s \in 1..ns, t \in Terminals(G) : AcceptConflict(ActionSet(G, sets[s], t)),
       plen |-> [p \in 1..Len(G.prods) |-> Len(G.prods[p].b)],
       phead|-> [p \in 1..Len(G.prods) |-> G.prods[p].h] ]
=============================================================================
