------------------------------- MODULE GoccScan -------------------------------
(***************************************************************************)
(* The token language of gocc grammar files (the lexical items documented  *)
(* at the end of spec/gocc2.ebnf and in the user guide) as a reference     *)
(* tokenizer over character classes, for WELL-FORMED texts only: a text    *)
(* that the documented language does not cover is "ill" and nothing is     *)
(* claimed about it (gocc's scanner is more liberal in places).            *)
(*                                                                         *)
(* A text is a sequence of character classes:                              *)
(*   "n" "x" "c"  lower-case letters (n: also a named escape, x: the \x    *)
(*                introducer, c: also a hexadecimal digit)                 *)
(*   "P"          an upper-case letter          "7" "9"  digits (7: octal) *)
(*   "_" "!" "'" "dq" "bq" "bs" "/" "*" "<" ">" "nl" "sp"                  *)
(*   ":"          any single-character punctuation token    "-"            *)
(*   "?"          a character that belongs to no token                     *)
(* Tokens: [k |-> kind, from, to] (1-based positions, inclusive).          *)
(* TLC enumerates every text up to MaxLen, and texts built from token      *)
(* fragments and layouts; the well-formed ones with their token streams    *)
(* are replayed on the real scanner (C13: layout and comments never change *)
(* the token stream; C14/C15: the token alphabet the parser sees).         *)
(***************************************************************************)
EXTENDS Integers, Sequences, FiniteSets, TLC, Json

CONSTANT MaxLen

Classes == {"n", "x", "c", "P", "7", "9", "_", "!", "'", "dq", "bq", "bs", "/", "*", "<", ">", "nl", "sp", ":", "-", "?"}
Lower == {"n", "x", "c"}
Letter == Lower \cup {"P"}
Digit == {"7", "9"}
HexDigit == {"7", "9", "c"}

At(s, i) == IF i >= 1 /\ i <= Len(s) THEN s[i] ELSE "eof"

Ill == <<[k |-> "ill", from |-> 0, to |-> 0]>>
IsIll(ts) == ts # <<>> /\ ts[Len(ts)].k = "ill"

(* end position of an escape sequence that starts with the back-slash at i, 0 if malformed *)
EscapeEnd(s, i, quote) ==
  LET c == At(s, i + 1) IN
  IF c \in {"n", "bs", quote} THEN i + 1
  ELSE IF c = "7" /\ At(s, i + 2) = "7" /\ At(s, i + 3) = "7" THEN i + 3
  ELSE IF c = "x" /\ At(s, i + 2) \in HexDigit /\ At(s, i + 3) \in HexDigit THEN i + 3
  ELSE 0

(* character literal starting at i: position of the closing quote, 0 if malformed *)
CharEnd(s, i) ==
  LET c == At(s, i + 1) IN
  IF c \in {"'", "nl", "eof"} THEN 0
  ELSE IF c = "bs"
       THEN LET e == EscapeEnd(s, i + 1, "'") IN IF e # 0 /\ At(s, e + 1) = "'" THEN e + 1 ELSE 0
       ELSE IF At(s, i + 2) = "'" THEN i + 2 ELSE 0

(* interpreted string starting at i (the opening quote): closing quote position, 0 if malformed *)
RECURSIVE StringEnd(_, _)
StringEnd(s, j) ==      \* j: next position to look at
  LET c == At(s, j) IN
  IF c = "dq" THEN j
  ELSE IF c \in {"nl", "eof"} THEN 0
  ELSE IF c = "bs" THEN LET e == EscapeEnd(s, j, "dq") IN IF e = 0 THEN 0 ELSE StringEnd(s, e + 1)
  ELSE StringEnd(s, j + 1)

RECURSIVE RawEnd(_, _)
RawEnd(s, j) == IF At(s, j) = "bq" THEN j ELSE IF At(s, j) = "eof" THEN 0 ELSE RawEnd(s, j + 1)

(* << ... >> : ends at the first >> ; at least one character in between *)
RECURSIVE SdtEnd(_, _)
SdtEnd(s, j) ==
  IF At(s, j) = "eof" THEN 0
  ELSE IF At(s, j) = ">" /\ At(s, j + 1) = ">" THEN j + 1
  ELSE SdtEnd(s, j + 1)

RECURSIVE IdentEnd(_, _)
IdentEnd(s, j) == IF At(s, j + 1) \in Letter \cup Digit \cup {"_"} THEN IdentEnd(s, j + 1) ELSE j

(* end of a comment starting at i (the first slash); 0 if unterminated block comment *)
RECURSIVE LineEnd(_, _)
LineEnd(s, j) == IF At(s, j + 1) \in {"nl", "eof"} THEN j ELSE LineEnd(s, j + 1)
RECURSIVE BlockEnd(_, _)
BlockEnd(s, j) == IF At(s, j) = "eof" THEN 0
                  ELSE IF At(s, j) = "*" /\ At(s, j + 1) = "/" THEN j + 1 ELSE BlockEnd(s, j + 1)

RECURSIVE Toks(_, _)
Toks(s, i) ==
  LET c == At(s, i)
      Tok(k, e) == IF e = 0 THEN Ill
                   ELSE LET rest == Toks(s, e + 1) IN
                        IF IsIll(rest) THEN Ill ELSE <<[k |-> k, from |-> i, to |-> e]>> \o rest
  IN
  CASE c = "eof" -> <<>>
    [] c \in {"sp", "nl"} -> Toks(s, i + 1)
    [] c = "/" -> IF At(s, i + 1) = "/" THEN Toks(s, LineEnd(s, i + 1) + 1)
                  ELSE IF At(s, i + 1) = "*"
                       THEN LET e == BlockEnd(s, i + 2) IN IF e = 0 THEN Ill ELSE Toks(s, e + 1)
                       ELSE Ill
    [] c \in Lower -> Tok("tokId", IdentEnd(s, i))
    [] c = "P" -> Tok("prodId", IdentEnd(s, i))
    [] c = "_" -> IF At(s, i + 1) \in Letter \cup Digit THEN Tok("regDefId", IdentEnd(s, i)) ELSE Ill
    [] c = "!" -> IF At(s, i + 1) \in Letter THEN Tok("ignoredTokId", IdentEnd(s, i)) ELSE Ill
    [] c = "'" -> Tok("char_lit", CharEnd(s, i))
    [] c = "dq" -> Tok("string_lit", StringEnd(s, i + 1))
    [] c = "bq" -> Tok("string_lit", RawEnd(s, i + 1))
    [] c = "<" -> IF At(s, i + 1) = "<" /\ ~(At(s, i + 2) = ">" /\ At(s, i + 3) = ">")
                  THEN Tok("g_sdt_lit", SdtEnd(s, i + 2)) ELSE Ill
    [] c = ":" -> Tok(":", i)
    [] c = "-" -> Tok("-", i)
    [] OTHER -> Ill

RefToks(s) == Toks(s, 1)
WellFormed(s) == ~IsIll(RefToks(s))

(* an identifier directly followed by '!' is one identifier to gocc and two tokens (or none) *)
(* to the documented grammar: nothing is claimed there                                        *)
NoBangInside(s) == \A i \in 2..Len(s) : s[i] = "!" => s[i-1] \notin Letter \cup Digit \cup {"_", "!"}

AllTexts == UNION {[1..n -> Classes] : n \in 0..MaxLen}
Good == {s \in AllTexts : WellFormed(s) /\ NoBangInside(s)}

(* ---- token fragments and layouts: longer texts with a known token stream ---- *)
Fragments == { <<"n">>, <<"n", "x", "7">>, <<"P", "n">>, <<"_", "n">>, <<"!", "n">>,
               <<"'", "n", "'">>, <<"'", "bs", "n", "'">>, <<"'", "bs", "bs", "'">>, <<"'", "bs", "'", "'">>,
               <<"'", "bs", "7", "7", "7", "'">>, <<"'", "bs", "x", "7", "c", "'">>, <<"'", "dq", "'">>, <<"'", "/", "'">>,
               <<"dq", "dq">>, <<"dq", "n", "sp", "/", "/", "dq">>, <<"dq", "bs", "dq", "dq">>, <<"dq", "'", "dq">>,
               <<"bq", "bq">>, <<"bq", "dq", "nl", "bs", "bq">>,
               <<":">>, <<"-">>, <<"<", "<", "n", ">", ">">>, <<"<", "<", ">", "sp", ">", ">">>, <<"<", "<", "/", "*", ">", ">">> }
Layouts == { <<>>, <<"sp">>, <<"nl">>, <<"sp", "nl", "sp">>, <<"/", "/", "n", "nl">>, <<"/", "/", "nl">>,
             <<"/", "*", "*", "/">>, <<"/", "*", "n", "*", "/">>, <<"/", "*", "*", "*", "/">>, <<"/", "*", "/", "sp", "*", "/">>,
             <<"/", "*", "nl", "*", "*", "/", "sp">>, <<"/", "*", "*", "/", "/", "*", "*", "/">> }
Composed == {f1 \o l1 \o f2 \o l2 : f1 \in Fragments, l1 \in Layouts, f2 \in Fragments, l2 \in Layouts}
GoodComposed == {s \in Composed : WellFormed(s) /\ NoBangInside(s)}

(* comments and white space never change the token kinds: removing a layout between two *)
(* tokens that cannot fuse gives the same kinds (C13, at the level of the token language) *)
Kinds(ts) == [i \in 1..Len(ts) |-> ts[i].k]

VARIABLE step
Init == step = 0
Next == /\ step = 0 /\ step' = 1
        /\ JsonSerialize("scan.json", [texts |-> {<<s, RefToks(s)>> : s \in Good},
                                       composed |-> {<<s, RefToks(s)>> : s \in GoodComposed},
                                       all |-> Cardinality(AllTexts), ncomposed |-> Cardinality(Composed)])
=============================================================================
