SPECIFICATION Spec
INVARIANT ZeroMeansComplete
INVARIANT ConflictPolicy
INVARIANT DumpOutcome
PROPERTY Terminates
CHECK_DEADLOCK FALSE
