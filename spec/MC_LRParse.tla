----------------------------- MODULE MC_LRParse -----------------------------
(***************************************************************************)
(* The parse driver over the canonical LR(1) tables of small grammars, for *)
(* ALL token sequences up to MaxLen and all choices of a failing action.   *)
(* The verdicts of the machine are compared with the LR-independent oracle *)
(* of CFG.tla (bounded languages), so that neither LR1.tla nor LRParse.tla *)
(* can silently become its own judge.                                      *)
(*   C02  accepted <=> sentence; every run terminates                      *)
(*   C03  actions run bottom-up, left to right, once per alternative       *)
(*        occurrence; a failing action stops the parse at once             *)
(*   C06  first offending token, no action run on it, exact expected set   *)
(*   C07  recovery never gets stuck, consumes tokens in order, is inert on *)
(*        inputs without syntax errors                                     *)
(* grammars.json: sequence of [abs |-> grammar, noerr |-> the same grammar *)
(* without its error alternatives (or the grammar itself)].                *)
(***************************************************************************)
EXTENDS LR1, Json, TLC

CONSTANTS MaxLen, MaxFail, WithInvalid

Grammars == JsonDeserialize("grammars.json")
NG == Len(Grammars)
Ideal  == [i \in 1..NG |-> IdealTables(Grammars[i].abs)]
Or     == [i \in 1..NG |-> Oracle(Grammars[i].abs, MaxLen + 1)]
OrNoErr== [i \in 1..NG |-> Oracle(Grammars[i].noerr, MaxLen + 1)]

MInit(gi) == 1
MAct(gi, s, t) == Ideal[gi].act[s][t]
MGoto(gi, s, p) == Ideal[gi].goto[s][Ideal[gi].phead[p]]
MPLen(gi, p) == Ideal[gi].plen[p]
MHasAct(gi, p) == Grammars[gi].abs.prods[p].act
MTerms(gi) == Terminals(Grammars[gi].abs)
MErr(gi) == Grammars[gi].abs.err

VARIABLES g, input, failAt, pc, stack, nxt, ncall, etok, out,
          calls,      \* ghost: the action calls so far, [p, args, la]
          recovered   \* ghost: an error recovery took place

P == INSTANCE LRParse WITH TInit <- MInit, TAct <- MAct, TGoto <- MGoto, TPLen <- MPLen,
                           THasAct <- MHasAct, TTerms <- MTerms, TErr <- MErr

vars == <<g, input, failAt, pc, stack, nxt, ncall, etok, out, calls, recovered>>

ConflictFree(gi) == Ideal[gi].conf = {}
ErrFree(gi) == Grammars[gi].abs.err = 0
AllAct(gi) == \A p \in 2..Len(Grammars[gi].abs.prods) : Grammars[gi].abs.prods[p].act
AllProductive(gi) == Productive(Grammars[gi].abs) = NonTerminals(Grammars[gi].abs)

InputAlphabet(gi) == ((2..Grammars[gi].abs.nt) \ {Grammars[gi].abs.err})
                     \cup (IF WithInvalid THEN {0} ELSE {})
Inputs(gi) == UNION {[1..n -> InputAlphabet(gi)] : n \in 0..MaxLen}

Init == /\ pc = "idle" /\ g = 1 /\ input = <<>> /\ failAt = 0 /\ stack = <<>>
        /\ nxt = 0 /\ ncall = 0 /\ etok = 0 /\ out = P!NoOut
        /\ calls = <<>> /\ recovered = FALSE

Start == /\ pc = "idle"
         /\ \E gi \in 1..NG : \E inp \in Inputs(gi) : \E fa \in 0..MaxFail : P!Begin(gi, inp, fa)
         /\ UNCHANGED <<calls, recovered>>

Run == /\ P!Step
       /\ calls' = IF ncall' > ncall
                   THEN LET p == P!Act(P!Top, P!TokType(nxt)).n IN
                        Append(calls, [p |-> p, args |-> P!RedArgs(p), la |-> nxt])
                   ELSE calls
       /\ recovered' = (recovered \/ pc' = "skip")

Done == pc = "done" /\ UNCHANGED vars

Next == Start \/ Run \/ Done
Spec == Init /\ [][Next]_vars /\ WF_vars(Start \/ Run)

----------------------------------------------------------------------------
Finished == pc = "done"
Shifted(n) == SubSeq(input, 1, n)
NoInvalid == \A i \in 1..Len(input) : input[i] # 0

(* C02 *)
AcceptsExactlyTheLanguage ==
  (Finished /\ failAt = 0 /\ ConflictFree(g) /\ ErrFree(g) /\ NoInvalid) =>
     (out.ok <=> input \in Or[g].sent)

(* Parse terminates on every token sequence (conflict-free grammars; a    *)
(* grammar with a cycle A =>+ A is ambiguous, hence conflicting, and its   *)
(* resolved parser may reduce forever)                                      *)
Terminates == (pc \in {"run", "skip"} /\ ConflictFree(g)) ~> (pc = "done")

(* C06 *)
FirstOffendingToken ==
  (Finished /\ ~out.ok /\ ~out.injected /\ ConflictFree(g) /\ ErrFree(g) /\ AllProductive(g)) =>
     LET i   == out.tok
         pre == Shifted(i - 1)
         t   == P!TokType(i)
     IN /\ i >= 1 /\ i <= Len(input) + 1
        /\ pre \in Or[g].pref
        /\ IF t = 0 THEN TRUE
           ELSE IF t = EOFSym THEN pre \notin Or[g].sent
           ELSE Append(pre, t) \notin Or[g].pref
        /\ out.exp = {a \in 2..Grammars[g].abs.nt : Append(pre, a) \in Or[g].pref}
                     \cup (IF pre \in Or[g].sent THEN {EOFSym} ELSE {})
        /\ \A c \in 1..Len(calls) : calls[c].la # i

(* C03 *)
RECURSIVE PostOrder(_)
PostOrder(a) == IF a.k # "n" THEN <<>>
                ELSE LET as == calls[a.i].args
                         RECURSIVE Cat(_)
                         Cat(j) == IF j > Len(as) THEN <<>> ELSE PostOrder(as[j]) \o Cat(j + 1)
                     IN Cat(1) \o <<a.i>>
RECURSIVE Yield(_)
Yield(a) == IF a.k = "t" THEN <<a.i>>
            ELSE IF a.k # "n" THEN <<>>
            ELSE LET as == calls[a.i].args
                     RECURSIVE Cat(_)
                     Cat(j) == IF j > Len(as) THEN <<>> ELSE Yield(as[j]) \o Cat(j + 1)
                 IN Cat(1)

BottomUpLeftToRight ==
  (Finished /\ out.ok /\ AllAct(g) /\ ErrFree(g)) =>
     /\ PostOrder(out.res) = [i \in 1..ncall |-> i]
     /\ Yield(out.res) = [i \in 1..Len(input) |-> i]

(* every action call gets the attributes of its body: arity, and a value  *)
(* returned by an earlier call is used at most once                        *)
CallsWellFormed ==
  /\ \A c \in 1..Len(calls) : Len(calls[c].args) = MPLen(g, calls[c].p)
  /\ \A c \in 1..Len(calls) : \A j \in 1..Len(calls[c].args) :
        calls[c].args[j].k = "n" => calls[c].args[j].i < c

FailingActionStops ==
  (Finished /\ failAt # 0 /\ ncall >= failAt) => (~out.ok /\ out.injected /\ ncall = failAt)

(* C07 *)
RECURSIVE AttrToks(_)
AttrToks(a) == IF a.k = "t" THEN <<a.i>>
               ELSE IF a.k = "e" THEN LET RECURSIVE Cat(_)
                                          Cat(j) == IF j > Len(a.syms) THEN <<>> ELSE AttrToks(a.syms[j]) \o Cat(j + 1)
                                      IN Cat(1)
               ELSE <<>>
RECURSIVE CallToks(_, _)
CallToks(c, j) == IF c > Len(calls) THEN <<>>
                  ELSE IF j > Len(calls[c].args) THEN CallToks(c + 1, 1)
                  ELSE AttrToks(calls[c].args[j]) \o CallToks(c, j + 1)
(* every token object is delivered to at most one action (as a body       *)
(* attribute or among the discarded attributes of an error attribute), and *)
(* the attributes one action receives are in input order                   *)
Increasing(ts) == \A i \in 1..(Len(ts) - 1) : ts[i] < ts[i+1]
RECURSIVE ArgToks(_, _)
ArgToks(as, j) == IF j > Len(as) THEN <<>> ELSE AttrToks(as[j]) \o ArgToks(as, j + 1)
TokensOnceInOrder ==
  LET ts == CallToks(1, 1) IN
  /\ \A i, j \in 1..Len(ts) : i # j => ts[i] # ts[j]
  /\ \A c \in 1..Len(calls) : Increasing(ArgToks(calls[c].args, 1))

(* the tokens below the result, left to right, are a subsequence of the    *)
(* input: recovery drops tokens but never reorders or duplicates them      *)
RECURSIVE YieldE(_)
YieldE(a) == IF a.k = "t" THEN <<a.i>>
             ELSE IF a.k = "e" THEN AttrToks(a)
             ELSE IF a.k # "n" THEN <<>>
             ELSE LET as == calls[a.i].args
                      RECURSIVE Cat(_)
                      Cat(j) == IF j > Len(as) THEN <<>> ELSE YieldE(as[j]) \o Cat(j + 1)
                  IN Cat(1)
ResultInInputOrder == (Finished /\ out.ok /\ AllAct(g)) => Increasing(YieldE(out.res))

RecoveryInertOnSentences ==
  (Finished /\ failAt = 0 /\ ConflictFree(g) /\ NoInvalid /\ input \in OrNoErr[g].sent) =>
     (out.ok /\ ~recovered)

(* bounded stack: the driver cannot grow the stack without consuming input *)
StackBounded == Len(stack) <= 2 + (Len(input) + 2) * (Len(Grammars[g].abs.prods) + 2)
=============================================================================
