----------------------------- MODULE MC_LexItems -----------------------------
(***************************************************************************)
(* Design-level comparison of gocc's item-set construction (LexItems.tla)  *)
(* with the semantics of property C01 (Regex.tla: regular definitions      *)
(* expanded like macros).  The product of the two automata is explored for *)
(* every grammar of grammars.json; Agree is the bisimulation invariant.    *)
(*  - on grammars whose regular definitions come from the conflation-free  *)
(*    classes the C01 check draws from, Agree must hold (this is what makes *)
(*    the restriction of the generator sound);                             *)
(*  - on unrestricted grammars TLC finds the disagreements of known        *)
(*    finding F4 at design level, without running any code.                *)
(* grammars.json: sequence of [natoms, prods] with prods as in LexItems.   *)
(***************************************************************************)
EXTENDS LexItems, Json, TLC

Gs == JsonDeserialize("grammars.json")

VARIABLES g, I, S, path
vars == <<g, I, S, path>>
View == <<g, I, S>>

Prods == Gs[g].prods
DefsOf(gi) == [n \in {Gs[gi].prods[i].name : i \in {j \in 1..Len(Gs[gi].prods) : Gs[gi].prods[j].kind = "def"}} |->
                 Gs[gi].prods[ProdOfName(Gs[gi].prods, n)].re]
(* Regex.tla works on the token list: productions that are no definitions, same indices *)
RegexStart(gi) == {<<i, Gs[gi].prods[i].re>> : i \in {j \in 1..Len(Gs[gi].prods) : Gs[gi].prods[j].kind # "def"}}

Init == /\ g \in 1..Len(Gs)
        /\ I = ItemStart(Gs[g].prods)
        /\ S = RegexStart(g)
        /\ path = <<>>

Next == /\ I # {} /\ S # {}
        /\ \E a \in 1..Gs[g].natoms :
              /\ I' = ItemStep(Prods, I, a)
              /\ S' = Step(DefsOf(g), S, a)
              /\ path' = Append(path, a)
        /\ UNCHANGED g

Agree ==
  /\ (I = {}) <=> (S = {})
  /\ (I # {} /\ S # {}) =>
        LET vi == ItemVerdict(Prods, I)
            vs == Verdict(DefsOf(g), Prods, S)
        IN vi.kind = vs.kind /\ vi.tok = vs.tok

(* never violated: prints every reachable disagreement (grammar index and text read) *)
AgreeOrReport == Agree \/ PrintT(<<"DISAGREE", g, path>>)
=============================================================================
