----------------------------- MODULE LRIdealEval -----------------------------
(* Evaluates the canonical LR(1) construction of LR1.tla on concrete       *)
(* grammars: reads grammars.json (sequence of abstract grammars), writes   *)
(* ideal.json: per grammar the number of canonical states, the conflicting *)
(* (state, terminal) pairs, the number of states with a conflict and       *)
(* whether accepting competes with another action (the case -a refuses).   *)
EXTENDS LR1, Json, TLC
In == JsonDeserialize("grammars.json")
Summ(G) == LET T == IdealTables(G) IN
  [ nstates |-> T.n,
    nconfstates |-> Cardinality({c[1] : c \in T.conf}),
    nconf |-> Cardinality(T.conf),
    accconf |-> T.accconf ]
ASSUME JsonSerialize("ideal.json", [i \in 1..Len(In) |-> Summ(In[i])])
VARIABLE x
Init == x = 0
Next == FALSE /\ x' = x
=============================================================================
