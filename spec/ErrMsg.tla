------------------------------- MODULE ErrMsg -------------------------------
(***************************************************************************)
(* The rendering of a syntax error by the generated errors package          *)
(* (internal/parser/gen/golang/errors.go: Error(), String(),                *)
(* DescribeExpected, DescribeToken) and of a position by the generated      *)
(* token package (Pos.String), as functions from the fields of the error    *)
(* value to the text a user reads.  C06 says which token and which expected *)
(* set the error value carries; this module says that the text shows        *)
(* exactly those: every expected terminal once, in the order of the list,   *)
(* the line and column of the offending token, and the offending lexeme.    *)
(*                                                                         *)
(* Texts are sequences of bytes.  The module is written like the code       *)
(* (one operator per function, same case analysis), including what the code *)
(* knowingly does: a terminal is quoted unless its FIRST BYTE, read as a     *)
(* Latin-1 character, is a letter (so "é" = C3 A9 is not quoted, the Hebrew  *)
(* letter alef = D7 90 is, since D7 is the multiplication sign).             *)
(*                                                                         *)
(* TLC enumerates the error values of Cases, checks the properties the user *)
(* relies on (ShowsExactlyTheExpected, ShowsPosition) on the rendering, and *)
(* writes the table errmsg.json; the harness replays every row on the real  *)
(* generated packages (E4: model-based test generation).                    *)
(***************************************************************************)
EXTENDS Integers, Sequences, FiniteSets, Json, TLC

CONSTANT MaxList       \* all lists over Names up to this length
CONSTANT MaxLong       \* lists over Few up to this length (beyond MaxList)

(* ---- fixed texts ------------------------------------------------------- *)
SExpected == <<101, 120, 112, 101, 99, 116, 101, 100, 32>>  \* 'expected '
SExpectedEither == <<101, 120, 112, 101, 99, 116, 101, 100, 32, 101, 105, 116, 104, 101, 114, 32>>  \* 'expected either '
SOr == <<32, 111, 114, 32>>  \* ' or '
SExpectedOneOf == <<101, 120, 112, 101, 99, 116, 101, 100, 32, 111, 110, 101, 32, 111, 102, 32>>  \* 'expected one of '
SComma == <<44, 32>>  \* ', '
SOrSp == <<111, 114, 32>>  \* 'or '
SUnexpected == <<117, 110, 101, 120, 112, 101, 99, 116, 101, 100, 32, 97, 100, 100, 105, 116, 105, 111, 110, 97, 108, 32, 116, 111, 107, 101, 110, 115>>  \* 'unexpected additional tokens'
SUnknown == <<117, 110, 107, 110, 111, 119, 110, 47, 105, 110, 118, 97, 108, 105, 100, 32, 116, 111, 107, 101, 110, 32>>  \* 'unknown/invalid token '
SEOF == <<101, 110, 100, 45, 111, 102, 45, 102, 105, 108, 101>>  \* 'end-of-file'
SErrorColon == <<58, 32, 101, 114, 114, 111, 114, 58, 32>>  \* ': error: '
SGot == <<59, 32, 103, 111, 116, 58, 32>>  \* '; got: '
SError == <<69, 114, 114, 111, 114>>  \* 'Error'
STokenType == <<84, 111, 107, 101, 110, 58, 32, 116, 121, 112, 101, 61>>  \* 'Token: type='
SLit == <<44, 32, 108, 105, 116, 61>>  \* ', lit='
SPosOffset == <<80, 111, 115, 58, 32, 111, 102, 102, 115, 101, 116, 61>>  \* 'Pos: offset='
SLine == <<44, 32, 108, 105, 110, 101, 61>>  \* ', line='
SColumn == <<44, 32, 99, 111, 108, 117, 109, 110, 61>>  \* ', column='
SExpOneOf == <<69, 120, 112, 101, 99, 116, 101, 100, 32, 111, 110, 101, 32, 111, 102, 58, 32>>  \* 'Expected one of: '
SErrorSymbol == <<69, 114, 114, 111, 114, 83, 121, 109, 98, 111, 108, 58>>  \* 'ErrorSymbol:'
SPosOpen == <<80, 111, 115, 40, 111, 102, 102, 115, 101, 116, 61>>  \* 'Pos(offset='
NL == <<10>>
SP == <<32>>
COLON == <<58>>
DQ == 34
BS == 92

(* ---- the names and lexemes of the enumeration --------------------------- *)
Na == <<97>>                                   \* a
Nid == <<105, 100>>                            \* id
Nplus == <<43>>                                \* +
Ndq == <<34>>                                  \* "
Nbs == <<92, 110>>                             \* \n  (backslash, n: two characters)
Neacute == <<195, 169>>                        \* e acute
Nalef == <<215, 144>>                          \* Hebrew alef
Neof == <<226, 144, 154>>                      \* the name of end of input
Ninvalid == <<73, 78, 86, 65, 76, 73, 68>>     \* INVALID
Nunder == <<95, 120>>                          \* _x
Names == {Na, Nid, Nplus, Ndq, Nbs, Neacute, Nalef, Neof, Ninvalid, Nunder}
Few == {Nid, Nplus, Nalef}

Lits == {<<>>, <<120>>, <<34>>, <<92>>, <<10>>, <<9>>, <<0>>, <<127>>, <<195, 169>>, <<97, 32, 98>>, <<34, 120, 10, 121, 34>>}
Nums == {0, 1, 7, 12, 305}
Srcs == {<<>>, <<102, 46, 115, 114, 99>>}      \* no source context / "f.src"
Errs == {<<>>, <<98, 111, 111, 109>>}          \* no custom error / "boom"
INVALID == 0
EOF == 1
Types == {INVALID, EOF, 2, 11}

(* ---- helpers ------------------------------------------------------------ *)
RECURSIVE Dec(_)
Dec(n) == IF n < 10 THEN <<48 + n>> ELSE Dec(n \div 10) \o <<48 + (n % 10)>>

HexDigit(d) == IF d < 10 THEN 48 + d ELSE 87 + d

\* unicode.IsLetter on a byte read as a Latin-1 character
IsLetterByte(b) == \/ b \in 65..90 \/ b \in 97..122 \/ b \in {170, 181, 186}
                   \/ b \in 192..214 \/ b \in 216..246 \/ b \in 248..255

\* strconv.Quote on the texts of this enumeration (well-formed UTF-8 whose characters beyond
\* ASCII are printable: they are kept as they are)
QuoteByte(b) ==
  IF b = DQ THEN <<BS, DQ>>
  ELSE IF b = BS THEN <<BS, BS>>
  ELSE IF b = 7 THEN <<BS, 97>> ELSE IF b = 8 THEN <<BS, 98>> ELSE IF b = 12 THEN <<BS, 102>>
  ELSE IF b = 10 THEN <<BS, 110>> ELSE IF b = 13 THEN <<BS, 114>> ELSE IF b = 9 THEN <<BS, 116>>
  ELSE IF b = 11 THEN <<BS, 118>>
  ELSE IF b < 32 \/ b = 127 THEN <<BS, 120, HexDigit(b \div 16), HexDigit(b % 16)>>
  ELSE <<b>>
RECURSIVE QuoteBody(_)
QuoteBody(s) == IF s = <<>> THEN <<>> ELSE QuoteByte(Head(s)) \o QuoteBody(Tail(s))
Quote(s) == <<DQ>> \o QuoteBody(s) \o <<DQ>>

RECURSIVE Join(_, _)
Join(ss, sep) == IF ss = <<>> THEN <<>>
                 ELSE IF Len(ss) = 1 THEN ss[1] ELSE ss[1] \o sep \o Join(Tail(ss), sep)

(* ---- errors.DescribeExpected ------------------------------------------- *)
DescribeExpected(ts) ==
  CASE Len(ts) = 0 -> SUnexpected
    [] Len(ts) = 1 -> SExpected \o ts[1]
    [] Len(ts) = 2 -> SExpectedEither \o ts[1] \o SOr \o ts[2]
    [] Len(ts) = 3 -> SExpectedOneOf \o ts[1] \o SComma \o ts[2] \o SOr \o ts[3]
    [] OTHER -> SExpectedOneOf \o Join([i \in 1..Len(ts) |-> IF i = Len(ts) THEN SOrSp \o ts[i] ELSE ts[i]], SComma)

(* ---- errors.DescribeToken ---------------------------------------------- *)
DescribeToken(typ, lit) ==
  IF typ = INVALID THEN SUnknown \o Quote(lit)
  ELSE IF typ = EOF THEN SEOF
  ELSE Quote(lit)

(* ---- Error.Error() ----------------------------------------------------- *)
Shown(name) == IF IsLetterByte(name[1]) THEN name ELSE Quote(name)

ErrorText(e) ==
  LET pos == Dec(e.line) \o COLON \o Dec(e.col) \o SErrorColon
      pre == IF e.src = <<>> THEN pos ELSE e.src \o COLON \o pos
  IN IF e.err # <<>> THEN pre \o e.err
     ELSE pre \o DescribeExpected([i \in 1..Len(e.exp) |-> Shown(e.exp[i])])
              \o SGot \o DescribeToken(e.typ, e.lit)

(* ---- Error.String() (no error symbols: no recovery happened) ----------- *)
RECURSIVE EachSp(_)
EachSp(ts) == IF ts = <<>> THEN <<>> ELSE Head(ts) \o SP \o EachSp(Tail(ts))
StringText(e) ==
  (IF e.err # <<>> THEN SError \o SP \o SP \o e.err \o NL ELSE SError \o NL)
  \o STokenType \o Dec(e.typ) \o SLit \o e.lit \o NL
  \o SPosOffset \o Dec(e.off) \o SLine \o Dec(e.line) \o SColumn \o Dec(e.col) \o NL
  \o SExpOneOf \o EachSp(e.exp) \o SErrorSymbol \o NL

(* ---- token.Pos.String ---------------------------------------------------- *)
PosText(e) ==
  IF e.src # <<>> THEN e.src \o COLON \o Dec(e.line) \o COLON \o Dec(e.col)
  ELSE SPosOpen \o Dec(e.off) \o SLine \o Dec(e.line) \o SColumn \o Dec(e.col) \o <<41>>

(* ---- the enumerated error values ---------------------------------------- *)
RECURSIVE SeqsUpTo(_, _)
SeqsUpTo(S, n) == IF n = 0 THEN {<<>>}
                  ELSE LET shorter == SeqsUpTo(S, n - 1)
                       IN shorter \cup {Append(s, x) : s \in {t \in shorter : Len(t) = n - 1}, x \in S}

Lists == SeqsUpTo(Names, MaxList) \cup SeqsUpTo(Few, MaxLong)
SomeLists == {<<>>, <<Nid>>, <<Nplus, Nalef, Nid, Ndq>>}

Mk(exp, typ, lit, off, line, col, src, err) ==
  [exp |-> exp, typ |-> typ, lit |-> lit, off |-> off, line |-> line, col |-> col, src |-> src, err |-> err]

Cases == {Mk(l, 2, <<120>>, 7, 1, 12, <<>>, <<>>) : l \in Lists}
         \cup {Mk(l, t, x, n, m, n, s, r) : l \in SomeLists, t \in Types, x \in Lits, n \in Nums, m \in {1, 12}, s \in Srcs, r \in Errs}

(* ---- what the user relies on, stated on the rendering ------------------- *)
\* occurrences of a text in another
IsAt(s, t, i) == i + Len(t) - 1 <= Len(s) /\ \A k \in 1..Len(t) : s[i + k - 1] = t[k]
Occurs(s, t) == \E i \in 1..Len(s) : IsAt(s, t, i)

\* the message shows every expected terminal, in list order: cutting the message at the shown
\* terminals in order is possible
RECURSIVE InOrderFrom(_, _, _)
InOrderFrom(s, ts, from) ==
  IF ts = <<>> THEN TRUE
  ELSE \E i \in from..Len(s) : IsAt(s, Head(ts), i) /\ InOrderFrom(s, Tail(ts), i + Len(Head(ts)))

ShowsExactlyTheExpected ==
  \A e \in Cases : e.err = <<>> =>
     InOrderFrom(ErrorText(e), [i \in 1..Len(e.exp) |-> Shown(e.exp[i])], 1)
ShowsPosition ==
  \A e \in Cases : LET want == Dec(e.line) \o COLON \o Dec(e.col) \o SErrorColon
                   IN IsAt(ErrorText(e), want, IF e.src = <<>> THEN 1 ELSE Len(e.src) + 2)
ShowsLexeme ==
  \A e \in Cases : (e.err = <<>> /\ e.typ # EOF) => Occurs(ErrorText(e), Quote(e.lit))

ASSUME ShowsExactlyTheExpected
ASSUME ShowsPosition
ASSUME ShowsLexeme
ASSUME JsonSerialize("errmsg.json", [n |-> Cardinality(Cases),
          rows |-> {[e |-> e, msg |-> ErrorText(e), str |-> StringText(e), pos |-> PosText(e)] : e \in Cases}])

VARIABLE x
Init == x = 0
Next == FALSE /\ x' = x
=============================================================================
