SPECIFICATION TSpec
INVARIANT Match
INVARIANT TPosExact
INVARIANT TCursorExact
CHECK_DEADLOCK TRUE
