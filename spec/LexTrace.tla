------------------------------ MODULE LexTrace ------------------------------
(***************************************************************************)
(* Trace validation of real generated lexers against LexScan.              *)
(*                                                                         *)
(* dfas.json : sequence of real automata, read out of compiled generated   *)
(*             code: [T, acc, ign] with T[q+1][a], acc[q+1], ign[q+1]      *)
(* trace.ndjson : events recorded from real runs, many traces concatenated *)
(*   [ev |-> "new", g, src, dbg, id]  a new Lexer object over text src for *)
(*                                   automaton g; dbg: the lexer was built *)
(*                                   with -debug_lexer and every loop      *)
(*                                   iteration is logged                   *)
(*   [ev |-> "begin", pos]           debug: Scan entered at byte pos       *)
(*   [ev |-> "iter", pos, line, col, state, next, posafter, start, end]    *)
(*                                   debug: one loop iteration             *)
(*   [ev |-> "scan", type, off, endoff, line, col]  Scan returned a token  *)
(*   [ev |-> "reset"]                Lexer.Reset was called                *)
(* The model is deterministic, so validation is linear: every event is     *)
(* matched by exactly one action; what the implementation logged is        *)
(* compared with what the model computed (variable `ok', invariant Match). *)
(* A state without successor before the end of the trace is a rejection    *)
(* (deadlock checking is on; the only terminal state is the accepting one).*)
(***************************************************************************)
EXTENDS LexScan, LexRef, Json, TLC

DFAs  == JsonDeserialize("dfas.json")
Trace == ndJsonDeserialize("trace.ndjson")

VARIABLES l,      \* next event
          g,      \* automaton of the current trace
          dbg,    \* current trace has per-iteration events
          id,     \* identifier of the current trace (for diagnostics)
          ok      \* the last consumed event matched the model

vars == <<lexvars, l, g, dbg, id, ok>>

Ev == Trace[l]
More == l <= Len(Trace)

TInit ==
  /\ l = 1 /\ g = 0 /\ dbg = FALSE /\ id = 0 /\ ok = TRUE
  /\ LexInit(<<>>)

(* a new lexer object *)
TNew ==
  /\ More /\ Ev.ev = "new" /\ pc = "idle"
  /\ g' = Ev.g /\ dbg' = Ev.dbg /\ id' = Ev.id /\ l' = l + 1
  /\ ok' = \A i \in 1..Len(Ev.src) :
             Ev.src[i].o = (IF i = 1 THEN 0 ELSE Ev.src[i-1].o + Ev.src[i-1].w)
  /\ src' = Ev.src
  /\ pos' = 0 /\ line' = 1 /\ col' = 1
  /\ state' = 0 /\ ttype' = INVALID
  /\ start' = 0 /\ sline' = 1 /\ scol' = 1 /\ end' = 0
  /\ ret' = NoTok /\ ncalls' = 0 /\ UNCHANGED pc

D == DFAs[g]

RetMatches(r, e) ==
  /\ e.type = r.type
  /\ e.off = ByteOff(src, r.from)
  /\ e.endoff = ByteOff(src, r.to)
  /\ e.line = r.line /\ e.col = r.col

TScanAtEOF ==
  /\ More /\ Ev.ev \in {"scan", "begin"} /\ ScanAtEOF
  /\ IF Ev.ev = "begin"
     THEN \* debug: "Lexer.Scan() pos=.." is printed, the result follows as the next event
          /\ l + 1 <= Len(Trace) /\ Trace[l+1].ev = "scan"
          /\ ok' = (dbg /\ Ev.pos = ByteOff(src, pos) /\ RetMatches(ret', Trace[l+1]))
          /\ l' = l + 2
     ELSE /\ ok' = (~dbg /\ RetMatches(ret', Ev)) /\ l' = l + 1
  /\ UNCHANGED <<g, dbg, id>>

TScanBegin ==
  /\ More /\ ScanBegin
  /\ IF dbg THEN /\ Ev.ev = "begin" /\ l' = l + 1 /\ ok' = (Ev.pos = ByteOff(src, pos))
            ELSE /\ Ev.ev = "scan" /\ UNCHANGED <<l, ok>>
  /\ UNCHANGED <<g, dbg, id>>

TIterate ==
  /\ More
  /\ LET nxt == IF AtEnd THEN -1 ELSE D.T[state+1][src[pos+1].a]
         acc == IF nxt = -1 THEN -1 ELSE D.acc[nxt+1]
         ign == IF nxt = -1 THEN FALSE ELSE D.ign[nxt+1]
     IN /\ Iterate(nxt, acc, ign)
        /\ IF dbg
           THEN /\ Ev.ev = "iter" /\ l' = l + 1
                /\ ok' = /\ Ev.pos = ByteOff(src, pos) /\ Ev.line = line /\ Ev.col = col
                         /\ Ev.state = state /\ Ev.next = nxt
                         /\ Ev.posafter = ByteOff(src, pos')
                         /\ Ev.start = ByteOff(src, start)
                         /\ Ev.end = ByteOff(src, end)
           ELSE /\ Ev.ev = "scan" /\ UNCHANGED <<l, ok>>
  /\ UNCHANGED <<g, dbg, id>>

TScanEnd ==
  /\ More /\ Ev.ev = "scan" /\ ScanEnd
  /\ ok' = RetMatches(ret', Ev)
  /\ l' = l + 1
  /\ UNCHANGED <<g, dbg, id>>

TReset ==
  /\ More /\ Ev.ev = "reset" /\ Reset
  /\ l' = l + 1 /\ ok' = TRUE
  /\ UNCHANGED <<g, dbg, id>>

TDone == ~More /\ UNCHANGED vars

TNext == TNew \/ TScanAtEOF \/ TScanBegin \/ TIterate \/ TScanEnd \/ TReset \/ TDone

TSpec == TInit /\ [][TNext]_vars

Match == ok

(* Properties of the model re-checked on every state the real runs visit *)
TPosExact == (pc = "idle" /\ ncalls > 0) => <<ret.line, ret.col>> = RefPos(src, ret.from)
TCursorExact == pc = "idle" => <<line, col>> = RefPos(src, pos)
=============================================================================
