--------------------------------- MODULE CFG ---------------------------------
(***************************************************************************)
(* Context-free grammars as gocc sees them, and an oracle for "sentence"   *)
(* and "prefix of a sentence" that is independent of any LR machinery      *)
(* (bounded language fixpoints).                                           *)
(*                                                                         *)
(* A grammar G is a record                                                 *)
(*   nt    : number of terminals; terminals are 1..nt, terminal 1 is the   *)
(*           end-of-input marker (never inside a body)                     *)
(*   nn    : number of nonterminals of the user grammar; nonterminals are  *)
(*           nt+1 .. nt+nn+1, nt+1 is the augmented start symbol S'        *)
(*   prods : sequence of [h |-> head, b |-> body]; prods[1] = S' -> Start; *)
(*           the other productions are the alternatives in source order;   *)
(*           b = <<>> is an alternative written `empty'                    *)
(*   err   : the terminal that is the error symbol (0 if the grammar has   *)
(*           none)                                                         *)
(***************************************************************************)
EXTENDS Integers, Sequences, FiniteSets

EOFSym == 1
Terminals(G) == 1..G.nt
NonTerminals(G) == (G.nt + 1)..(G.nt + G.nn + 1)
StartSym(G) == G.nt + 1
IsNT(G, X) == X > G.nt
ProdsOf(G, A) == {i \in 1..Len(G.prods) : G.prods[i].h = A}

(* ---------------- nullable nonterminals and FIRST ---------------------- *)
RECURSIVE NullableFix(_, _)
NullableFix(G, N) ==
  LET N2 == N \cup {G.prods[i].h : i \in {j \in 1..Len(G.prods) :
                          \A k \in 1..Len(G.prods[j].b) : G.prods[j].b[k] \in N}}
  IN IF N2 = N THEN N ELSE NullableFix(G, N2)
NullableSet(G) == NullableFix(G, {})

(* FIRST of a sequence of symbols given FIRST of the nonterminals *)
RECURSIVE FirstSeq(_, _, _, _)
FirstSeq(G, F, N, s) ==
  IF s = <<>> THEN {}
  ELSE LET X == Head(s) IN
       IF ~IsNT(G, X) THEN {X}
       ELSE F[X] \cup (IF X \in N THEN FirstSeq(G, F, N, Tail(s)) ELSE {})

SeqNullable(N, s) == \A k \in 1..Len(s) : s[k] \in N

RECURSIVE FirstFix(_, _, _)
FirstFix(G, N, F) ==
  LET F2 == [A \in NonTerminals(G) |->
               F[A] \cup UNION {FirstSeq(G, F, N, G.prods[i].b) : i \in ProdsOf(G, A)}]
  IN IF F2 = F THEN F ELSE FirstFix(G, N, F2)
FirstSets(G) == FirstFix(G, NullableSet(G), [A \in NonTerminals(G) |-> {}])

(* ---------------- bounded languages (oracle) --------------------------- *)
(* Words are sequences of terminals (without the end marker).  L[X] is the *)
(* set of words of length <= n derivable from X; P[X] the set of words of  *)
(* length <= n that are a prefix of a word derivable from X.               *)
Trunc(W, n) == {w \in W : Len(w) <= n}
ConcatSets(A, B, n) == Trunc({a \o b : a \in A, b \in B}, n)

RECURSIVE LangSeq(_, _, _, _)
LangSeq(G, L, s, n) ==
  IF s = <<>> THEN {<<>>}
  ELSE LET X == Head(s)
           LX == IF IsNT(G, X) THEN L[X] ELSE {<<X>>}
       IN ConcatSets(LX, LangSeq(G, L, Tail(s), n), n)

RECURSIVE LangFix(_, _, _)
LangFix(G, L, n) ==
  LET L2 == [A \in NonTerminals(G) |->
               L[A] \cup UNION {LangSeq(G, L, G.prods[i].b, n) : i \in ProdsOf(G, A)}]
  IN IF L2 = L THEN L ELSE LangFix(G, L2, n)
Lang(G, n) == LangFix(G, [A \in NonTerminals(G) |-> {}], n)

(* productive: derives at least one terminal word (of any length) *)
RECURSIVE ProductiveFix(_, _)
ProductiveFix(G, Pr) ==
  LET P2 == Pr \cup {G.prods[i].h : i \in {j \in 1..Len(G.prods) :
                          \A k \in 1..Len(G.prods[j].b) :
                             ~IsNT(G, G.prods[j].b[k]) \/ G.prods[j].b[k] \in Pr}}
  IN IF P2 = Pr THEN Pr ELSE ProductiveFix(G, P2)
Productive(G) == ProductiveFix(G, {})
SeqProductive(G, Pr, s) == \A k \in 1..Len(s) : ~IsNT(G, s[k]) \/ s[k] \in Pr

(* prefixes of the words derivable from a sequence of symbols *)
RECURSIVE PrefSeq(_, _, _, _, _, _)
PrefSeq(G, L, P, Pr, s, n) ==
  IF s = <<>> THEN {<<>>}
  ELSE LET X  == Head(s)
           LX == IF IsNT(G, X) THEN L[X] ELSE {<<X>>}
           PX == IF IsNT(G, X) THEN P[X] ELSE {<<>>, <<X>>}
       IN (IF SeqProductive(G, Pr, Tail(s)) THEN PX ELSE {})
          \cup ConcatSets(LX, PrefSeq(G, L, P, Pr, Tail(s), n), n)

RECURSIVE PrefFix(_, _, _, _, _)
PrefFix(G, L, Pr, P, n) ==
  LET P2 == [A \in NonTerminals(G) |->
               P[A] \cup UNION {PrefSeq(G, L, P, Pr, G.prods[i].b, n) : i \in ProdsOf(G, A)}]
  IN IF P2 = P THEN P ELSE PrefFix(G, L, Pr, P2, n)
Pref(G, n) == PrefFix(G, Lang(G, n), Productive(G), [A \in NonTerminals(G) |-> {}], n)

(* The oracle for one grammar and bound n: sentences and viable prefixes.  *)
Oracle(G, n) == [sent |-> Lang(G, n)[StartSym(G)], pref |-> Pref(G, n)[StartSym(G)]]
=============================================================================
