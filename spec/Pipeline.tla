------------------------------ MODULE Pipeline ------------------------------
(***************************************************************************)
(* gocc's main() as a state machine: stages, exit paths, files written.    *)
(* State: the flags of the run, abstract features of the input file, the   *)
(* stage reached, the exit status and the set of packages written.         *)
(* Used for C04 (exit policy on conflicts), C09 (termination; status zero  *)
(* means every required package was written), C11 (determinism: the next-  *)
(* state relation is a function), C12 (presentation flags do not alter the *)
(* outcome).                                                               *)
(***************************************************************************)
EXTENDS Integers, FiniteSets, Sequences, TLC, Json

FlagNames == {"a", "zip", "no_lexer", "debug_lexer", "debug_parser", "v"}
FlagSets == SUBSET FlagNames

(* features of the input file that decide the control flow *)
Conflicts == {"none", "sr", "rr", "accept"}   \* worst LR(1) conflict of the syntax part
Features == [ parses    : BOOLEAN,    \* accepted by the front end (syntax + consistency checks)
              hasSyntax : BOOLEAN,    \* the grammar has a syntax part
              conflict  : Conflicts ]

VARIABLES flags, feat, stage, status, written, announced

pvars == <<flags, feat, stage, status, written, announced>>

FlagError(f) == {"no_lexer", "debug_lexer"} \subseteq f

Init == /\ flags \in FlagSets /\ feat \in Features
        /\ (~feat.hasSyntax => feat.conflict = "none")
        /\ stage = "flags" /\ status = -1 /\ written = {} /\ announced = FALSE

Exit(code) == stage' = "exit" /\ status' = code

ReadFlags ==
  /\ stage = "flags"
  /\ IF FlagError(flags) THEN Exit(1) /\ UNCHANGED <<written, announced>>
     ELSE stage' = "frontend" /\ UNCHANGED <<status, written, announced>>
  /\ UNCHANGED <<flags, feat>>

FrontEnd ==
  /\ stage = "frontend"
  /\ IF feat.parses THEN stage' = "lexer" /\ UNCHANGED status ELSE Exit(1)
  /\ UNCHANGED <<flags, feat, written, announced>>

GenLexer ==
  /\ stage = "lexer"
  /\ written' = IF "no_lexer" \in flags THEN written ELSE written \cup {"lexer"}
  /\ stage' = IF feat.hasSyntax THEN "parser" ELSE "token"
  /\ UNCHANGED <<flags, feat, status, announced>>

(* an accept/reduce conflict makes the table generator give up (non-zero exit) *)
GenParser ==
  /\ stage = "parser"
  /\ IF feat.conflict = "accept"
     THEN Exit(2) /\ UNCHANGED <<written, announced>>
     ELSE /\ written' = written \cup {"parser", "errors"}
          /\ announced' = (feat.conflict # "none")
          /\ IF feat.conflict # "none" /\ "a" \notin flags
             THEN Exit(1)
             ELSE stage' = "token" /\ UNCHANGED status
  /\ UNCHANGED <<flags, feat>>

GenTokenUtil ==
  /\ stage = "token"
  /\ written' = written \cup {"token", "util"}
  /\ Exit(0)
  /\ UNCHANGED <<flags, feat, announced>>

Next == ReadFlags \/ FrontEnd \/ GenLexer \/ GenParser \/ GenTokenUtil
Spec == Init /\ [][Next]_pvars /\ WF_pvars(Next)

(* the packages a configuration calls for *)
Required(f, ft) == {"token", "util"}
                   \cup (IF "no_lexer" \in f THEN {} ELSE {"lexer"})
                   \cup (IF ft.hasSyntax THEN {"parser", "errors"} ELSE {})

(* C09 *)
Terminates == <>(stage = "exit")
ZeroMeansComplete == (stage = "exit" /\ status = 0) => written = Required(flags, feat)

(* C04 *)
ConflictPolicy ==
  stage = "exit" /\ ~FlagError(flags) /\ feat.parses =>
     /\ (feat.conflict = "none" => status = 0 /\ ~announced)
     /\ (feat.conflict \in {"sr", "rr"} => announced /\ (status = 0 <=> "a" \in flags))
     /\ (feat.conflict = "accept" => status # 0)

(* C12: presentation flags never change status or announcement *)
Presentation == {"zip", "debug_lexer", "debug_parser", "v"}

(* the outcome table: one line per (flags, features) on stdout, read by the harness *)
DumpOutcome == stage = "exit" =>
  PrintT(<<"PIPE", ToJson([flags |-> flags, parses |-> feat.parses, hasSyntax |-> feat.hasSyntax,
                           conflict |-> feat.conflict, status |-> status, written |-> written,
                           announced |-> announced])>>)

(* C11: the machine is deterministic: every state has at most one successor. *)
(* TLC reports the maximum out-degree of the complete state graph; the       *)
(* harness requires it to be 1.                                               *)
=============================================================================
