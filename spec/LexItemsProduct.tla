--------------------------- MODULE LexItemsProduct ---------------------------
(***************************************************************************)
(* Binding of LexItems.tla to the code: product of the real DFA of a       *)
(* generated lexer with the model of gocc's own item-set construction, on  *)
(* grammars with UNRESTRICTED regular definitions (known finding F4        *)
(* included).  Agreement here says that LexItems.tla describes what the    *)
(* generator does; it is not a verdict about property C01 (whose semantics *)
(* is Regex.tla).  batch.json as for LexProduct, with `items' = the record *)
(* of LexItems (natoms, prods) and tokmap indexed into prods.              *)
(***************************************************************************)
EXTENDS LexItems, Json, TLC

Batch == JsonDeserialize("batch.json")

VARIABLES g, q, I, path
vars == <<g, q, I, path>>
View == <<g, q, I>>
Prods == Batch[g].items.prods

Init == /\ g \in 1..Len(Batch) /\ q = 0 /\ I = ItemStart(Batch[g].items.prods) /\ path = <<>>

Next == /\ q # -1 /\ I # {}
        /\ \E k \in 1..Len(Batch[g].tatoms) : LET a == Batch[g].tatoms[k] IN
              /\ q' = Batch[g].T[q+1][a]
              /\ I' = ItemStep(Prods, I, a)
              /\ path' = Append(path, a)
        /\ UNCHANGED g

LiveAgree == (q = -1) <=> (I = {})

RealVerdict(qq) ==
  LET acc == Batch[g].acc[qq+1] ign == Batch[g].ign[qq+1] IN
  IF acc = -1 THEN [kind |-> IF ign THEN "ign" ELSE "stuck", tok |-> 0]
  ELSE IF ign THEN [kind |-> "both", tok |-> 0]
  ELSE IF acc = 0 THEN [kind |-> "none", tok |-> 0]
  ELSE IF acc + 1 \in 1..Len(Batch[g].tokmap) THEN [kind |-> "tok", tok |-> Batch[g].tokmap[acc+1]]
  ELSE [kind |-> "badnumber", tok |-> 0]

VerdictAgree ==
  (q # -1 /\ I # {}) =>
     LET v == ItemVerdict(Prods, I) r == RealVerdict(q) IN
       v.kind = r.kind /\ (v.kind = "tok" => v.tok = r.tok)
=============================================================================
