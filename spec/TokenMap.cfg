INIT Init
NEXT Next
INVARIANT NumberingOK
INVARIANT InverseOK
INVARIANT UnknownOK
INVARIANT LexerOK
INVARIANT ParserOK
CHECK_DEADLOCK FALSE
