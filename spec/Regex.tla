------------------------------- MODULE Regex -------------------------------
(***************************************************************************)
(* Semantics of gocc's lexical patterns, as stated by property C01.        *)
(*                                                                         *)
(* A pattern is a record tree:                                             *)
(*   [k |-> "eps"]                      the empty word                     *)
(*   [k |-> "set", s |-> <<atoms>>]     one character out of a set of atoms *)
(*                                      (a char literal or a range)        *)
(*   [k |-> "dot"]                      '.'                                *)
(*   [k |-> "cat", l, r]  [k |-> "alt", l, r]                              *)
(*   [k |-> "star", x]    {x}       [k |-> "opt", x]    [x]                *)
(*   [k |-> "ref", n]                   use of a regular definition: it is *)
(*                                      expanded like a macro (defs[n])    *)
(* Atoms are the classes of the coarsest partition of the code points that *)
(* respects every literal and range of the grammar, so a whole pattern is  *)
(* a regular expression over the finite alphabet 1..natoms.                *)
(*                                                                         *)
(* The automaton is the Antimirov partial-derivative automaton, with two   *)
(* kinds of move: over an explicit literal/range and over '.'.  '.' is a   *)
(* fallback for the whole state: it matches a character only if no        *)
(* explicit alternative *at that point of the text* matches it.            *)
(***************************************************************************)
EXTENDS Integers, Sequences, FiniteSets

Eps == [k |-> "eps"]

InSeq(a, s) == \E i \in 1..Len(s) : s[i] = a

Cat(a, b) == IF a = Eps THEN b ELSE IF b = Eps THEN a ELSE [k |-> "cat", l |-> a, r |-> b]

RECURSIVE Nullable(_, _)
Nullable(defs, r) ==
  CASE r.k = "eps"  -> TRUE
    [] r.k = "set"  -> FALSE
    [] r.k = "dot"  -> FALSE
    [] r.k = "cat"  -> Nullable(defs, r.l) /\ Nullable(defs, r.r)
    [] r.k = "alt"  -> Nullable(defs, r.l) \/ Nullable(defs, r.r)
    [] r.k = "star" -> TRUE
    [] r.k = "opt"  -> TRUE
    [] r.k = "ref"  -> Nullable(defs, defs[r.n])

(* Partial derivatives.  mode "exp": consume atom a through an explicit     *)
(* literal or range; mode "dot": consume any character through '.'.        *)
RECURSIVE PD(_, _, _, _)
PD(defs, r, a, mode) ==
  CASE r.k = "eps"  -> {}
    [] r.k = "set"  -> IF mode = "exp" /\ InSeq(a, r.s) THEN {Eps} ELSE {}
    [] r.k = "dot"  -> IF mode = "dot" THEN {Eps} ELSE {}
    [] r.k = "cat"  -> {Cat(x, r.r) : x \in PD(defs, r.l, a, mode)}
                       \cup (IF Nullable(defs, r.l) THEN PD(defs, r.r, a, mode) ELSE {})
    [] r.k = "alt"  -> PD(defs, r.l, a, mode) \cup PD(defs, r.r, a, mode)
    [] r.k = "star" -> {Cat(x, r) : x \in PD(defs, r.x, a, mode)}
    [] r.k = "opt"  -> PD(defs, r.x, a, mode)
    [] r.k = "ref"  -> PD(defs, defs[r.n], a, mode)

(* A lexer state is a set of pairs <<token index, residual pattern>>.       *)
Start(toks) == {<<i, toks[i].re>> : i \in 1..Len(toks)}

Step(defs, S, a) ==
  LET E == UNION {{<<p[1], x>> : x \in PD(defs, p[2], a, "exp")} : p \in S}
      D == UNION {{<<p[1], x>> : x \in PD(defs, p[2], a, "dot")} : p \in S}
  IN IF E # {} THEN E ELSE D

(* The tokens whose pattern matches the text read so far.                   *)
Done(defs, S) == {p[1] : p \in {q \in S : Nullable(defs, q[2])}}

(* C01's priority rule: a string literal of the syntax part wins over every *)
(* named pattern, otherwise the earliest declared pattern wins.             *)
Winner(toks, D) ==
  IF \E i \in D : toks[i].lit
  THEN CHOOSE i \in D : toks[i].lit
  ELSE CHOOSE i \in D : \A j \in D : toks[i].idx <= toks[j].idx

(* Verdict of a state: what the text read so far is (tok = index in toks).  *)
Verdict(defs, toks, S) ==
  LET D == Done(defs, S)
  IN IF D = {} THEN [kind |-> "none", tok |-> 0]
     ELSE LET w == Winner(toks, D) IN [kind |-> toks[w].kind, tok |-> w]

(* Domain of property C01 as checked here: no token pattern matches the     *)
(* empty string (the statement is silent on empty lexemes).                 *)
NoNullableToken(defs, toks) == \A i \in 1..Len(toks) : ~Nullable(defs, toks[i].re)
=============================================================================
