INIT Init
NEXT Next
CONSTANTS
  MaxProd = 6
  MaxComp = 4
CHECK_DEADLOCK FALSE
