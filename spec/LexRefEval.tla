----------------------------- MODULE LexRefEval -----------------------------
(* Evaluates the reference tokenizer on concrete texts (used by replays and *)
(* by the end-to-end comparison): reads refin.json = sequence of            *)
(* [abs, srcs], writes refout.json = per entry, per source, the tokens.    *)
EXTENDS LexRef, Json, TLC
In == JsonDeserialize("refin.json")
Out == [i \in 1..Len(In) |->
          [j \in 1..Len(In[i].srcs) |->
             RefTokens(In[i].abs.defs, In[i].abs.toks, In[i].srcs[j], 0)]]
ASSUME JsonSerialize("refout.json", Out)
VARIABLE x
Init == x = 0
Next == FALSE /\ x' = x
=============================================================================
