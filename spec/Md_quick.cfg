SPECIFICATION Spec
CONSTANT MaxLen = 7
INVARIANT EqualsBlank
INVARIANT LengthKept
CHECK_DEADLOCK FALSE
