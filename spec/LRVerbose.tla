----------------------------- MODULE LRVerbose -----------------------------
(***************************************************************************)
(* What gocc -v writes about the syntax part, against the construction of   *)
(* CFG.tla / LR1.tla: first.txt must list, for every nonterminal, exactly    *)
(* FIRST (with the word empty for a nullable one), and LR1_sets.txt must be  *)
(* the canonical collection: state 0 is the closure of the initial item,     *)
(* every listed transition leads to the state whose items are Goto of the    *)
(* source on that symbol, a transition is listed for exactly the symbols     *)
(* with a non-empty Goto, no two states have the same items and every state  *)
(* is reachable from state 0.  By induction over the paths from state 0      *)
(* this makes the listing THE canonical LR(1) collection of the grammar, in  *)
(* whatever order gocc numbers it.                                           *)
(*                                                                         *)
(* No listed property speaks about these files: the verdicts are recorded    *)
(* as coverage of the specification (a NOTE on disagreement), they never     *)
(* decide an exit status.                                                    *)
(*                                                                         *)
(* verbose.json: sequence of [g, first, states, trans]                       *)
(*   first  : sequence over the nonterminals (S' first) of [set, empty]      *)
(*   states : sequence of sequences of items [p, d, la]                      *)
(*   trans  : sequence (per state) of sequences of [sym, to] (to 1-based)    *)
(***************************************************************************)
EXTENDS LR1, Json, TLC

In == JsonDeserialize("verbose.json")

ToSet(s) == {s[k] : k \in 1..Len(s)}

FirstOK(c) ==
  LET G == c.g
      N == NullableSet(G)
      F == FirstSets(G)
  IN /\ Len(c.first) = G.nn + 1
     /\ \A k \in 1..(G.nn + 1) :
          LET A == G.nt + k IN
          /\ ToSet(c.first[k].set) = F[A]
          /\ c.first[k].empty = (A \in N)

Items(c, i) == {[p |-> it.p, d |-> it.d, la |-> it.la] : it \in ToSet(c.states[i])}
TransOf(c, i) == ToSet(c.trans[i])

RECURSIVE Reach(_, _)
Reach(c, R) ==
  LET R2 == R \cup {t.to : t \in UNION {TransOf(c, i) : i \in R}}
  IN IF R2 = R THEN R ELSE Reach(c, R2)

StatesOK(c) ==
  LET G == c.g
      N == NullableSet(G)
      F == FirstSets(G)
      n == Len(c.states)
  IN /\ n >= 1 /\ Len(c.trans) = n
     /\ Items(c, 1) = InitialItems(G, F, N)
     /\ \A i, j \in 1..n : i # j => Items(c, i) # Items(c, j)
     /\ \A i \in 1..n :
          /\ \A t \in TransOf(c, i) : t.to \in 1..n
          /\ \A t1, t2 \in TransOf(c, i) : t1.sym = t2.sym => t1 = t2
          /\ \A X \in Symbols(G) :
               LET J == Goto(G, F, N, Items(c, i), X)
                   ts == {t \in TransOf(c, i) : t.sym = X}
               IN IF J = {} THEN ts = {}
                  ELSE ts # {} /\ \A t \in ts : Items(c, t.to) = J
     /\ Reach(c, {1}) = 1..n

ASSUME JsonSerialize("verbose_verdicts.json",
          [i \in 1..Len(In) |-> [first |-> FirstOK(In[i]), states |-> StatesOK(In[i]), nstates |-> Len(In[i].states)]])
VARIABLE x
Init == x = 0
Next == FALSE /\ x' = x
=============================================================================
