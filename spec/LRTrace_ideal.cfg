SPECIFICATION TSpec
CONSTANT UseIdeal = TRUE
INVARIANT Match
CHECK_DEADLOCK TRUE
