INIT Init
NEXT Next
CONSTANT FullDigits = TRUE
CHECK_DEADLOCK FALSE
