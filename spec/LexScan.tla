------------------------------- MODULE LexScan -------------------------------
(***************************************************************************)
(* The generated Lexer.Scan loop (template lexer/gen/golang/lexer.go) as a *)
(* state machine: one action per loop iteration, implementation-shaped     *)
(* variables.  The automaton it drives is a parameter: the outcome of a    *)
(* table lookup is passed to the step action, so the same actions are used *)
(*   - by MC_LexScan with EVERY outcome chosen nondeterministically        *)
(*     (properties of the loop that hold for all automata), and            *)
(*   - by LexTrace with the transition/action tables read out of a real    *)
(*     generated lexer (trace validation).                                 *)
(*                                                                         *)
(* Source texts are sequences of rune records [a, w, o, k] (LexRef.tla);   *)
(* the cursor `pos' counts runes, byte offsets are derived with ByteOff.   *)
(* Token types: 0 INVALID, 1 end of input, >= 2 the grammar's tokens.      *)
(***************************************************************************)
EXTENDS Integers, Sequences

INVALID == 0
EOF     == 1

VARIABLES
  src,                      \* the text of the lexer object
  pos, line, col,           \* Lexer.pos / line / column (persistent)
  pc,                       \* "idle": between calls, "loop": inside Scan's for loop
  state,                    \* DFA state (-1: no transition)
  ttype,                    \* tok.Type
  start, sline, scol, end,  \* locals of Scan
  ret,                      \* the token returned by the last completed Scan
  ncalls                    \* number of completed Scan calls on this object

lexvars == <<src, pos, line, col, pc, state, ttype, start, sline, scol, end, ret, ncalls>>

NoTok == [type |-> -1, from |-> 0, to |-> 0, line |-> 0, col |-> 0]

LexInit(s) ==
  /\ src = s
  /\ pos = 0 /\ line = 1 /\ col = 1
  /\ pc = "idle" /\ state = 0 /\ ttype = INVALID
  /\ start = 0 /\ sline = 1 /\ scol = 1 /\ end = 0
  /\ ret = NoTok /\ ncalls = 0

(* line/column bookkeeping for one consumed rune of kind k *)
Advance(l, c, k) ==
  CASE k = "nl"  -> <<l + 1, 1>>
    [] k = "cr"  -> <<l, 1>>
    [] k = "tab" -> <<l, c + 4>>
    [] OTHER     -> <<l, c + 1>>

(* Scan called with the cursor at the end of the text *)
ScanAtEOF ==
  /\ pc = "idle" /\ pos >= Len(src)
  /\ ret' = [type |-> EOF, from |-> pos, to |-> pos, line |-> line, col |-> col]
  /\ ncalls' = ncalls + 1
  /\ UNCHANGED <<src, pos, line, col, pc, state, ttype, start, sline, scol, end>>

ScanBegin ==
  /\ pc = "idle" /\ pos < Len(src)
  /\ pc' = "loop" /\ state' = 0 /\ ttype' = INVALID
  /\ start' = pos /\ sline' = line /\ scol' = col /\ end' = 0
  /\ UNCHANGED <<src, pos, line, col, ret, ncalls>>

(* One loop iteration.  nxt, acc, ign are the outcome of the table lookups *)
(* for the rune under the cursor: nxt = TransTab[state](rune) (-1 = none), *)
(* acc = ActTab[nxt].Accept, ign = (ActTab[nxt].Ignore # "").  At the end  *)
(* of the text no rune is consumed and there is no lookup (nxt = -1).      *)
AtEnd == pos >= Len(src)

Iterate(nxt, acc, ign) ==
  /\ pc = "loop" /\ state # -1
  /\ LET pos1 == IF AtEnd THEN pos ELSE pos + 1
         lc   == IF AtEnd THEN <<line, col>> ELSE Advance(line, col, src[pos+1].k)
     IN
     /\ pos' = pos1
     /\ IF nxt # -1
        THEN /\ line' = lc[1] /\ col' = lc[2]
             /\ IF acc # -1
                THEN /\ ttype' = acc /\ end' = pos1 /\ state' = nxt
                     /\ UNCHANGED <<start, sline, scol>>
                ELSE IF ign
                THEN \* ignored text is complete: restart behind it
                     /\ start' = pos1 /\ sline' = lc[1] /\ scol' = lc[2]
                     /\ state' = 0
                     /\ ttype' = IF pos1 >= Len(src) THEN EOF ELSE INVALID
                     /\ UNCHANGED end
                ELSE /\ state' = nxt /\ UNCHANGED <<ttype, end, start, sline, scol>>
        ELSE /\ state' = -1
             /\ IF ttype = INVALID
                THEN \* the INVALID token swallows the rune that made the text unmatchable
                     /\ end' = pos1
                     /\ line' = lc[1] /\ col' = lc[2]
                ELSE UNCHANGED <<end, line, col>>
             /\ UNCHANGED <<ttype, start, sline, scol>>
  /\ UNCHANGED <<src, pc, ret, ncalls>>

(* The loop has ended: rewind to the end of the lexeme and return the token *)
ScanEnd ==
  /\ pc = "loop" /\ state = -1
  /\ pc' = "idle"
  /\ pos' = IF end > start THEN end ELSE pos
  /\ ret' = [type |-> ttype, from |-> start, to |-> IF end > start THEN end ELSE start,
             line |-> sline, col |-> scol]
  /\ ncalls' = ncalls + 1
  /\ UNCHANGED <<src, line, col, state, ttype, start, sline, scol, end>>

(* Lexer.Reset between calls *)
Reset ==
  /\ pc = "idle"
  /\ pos' = 0 /\ line' = 1 /\ col' = 1
  /\ UNCHANGED <<src, pc, state, ttype, start, sline, scol, end, ret, ncalls>>
=============================================================================
