------------------------------ MODULE LRProduct ------------------------------
(***************************************************************************)
(* Product of the real parse tables of a generated parser (read out of the *)
(* compiled generated code after init(), so -zip tables are seen decoded)  *)
(* with the canonical LR(1) automaton of LR1.tla.  Exploring the whole     *)
(* reachable product shows that the real tables ARE the canonical LR(1)    *)
(* tables (C02), that conflicts exist exactly where gocc reports them      *)
(* (C04), that competing actions are resolved shift-first / earliest       *)
(* production (C05) and that terminals are looked up under the numbers of  *)
(* the generated token package (C10).                                      *)
(*                                                                         *)
(* batch.json: sequence of records                                         *)
(*   abs    : the abstract grammar (CFG.tla)                               *)
(*   act    : act[q+1][c+1] = [k, n] real entry of state q, token number c *)
(*   goto   : goto[q+1][j+1] real gotoTab[q][j]                            *)
(*   rec    : rec[q+1] real canRecover flag                                *)
(*   col    : col[t] = token number the real TokMap gives terminal t       *)
(*   ntcol  : ntcol[X - nt] = real NTType index of nonterminal X           *)
(*   ptab   : ptab[p] = [nttype, nsym] of real production p-1              *)
(*   ncols  : length of a real action row                                  *)
(*   reported: number of conflicts gocc announced (-1: no announcement)    *)
(***************************************************************************)
EXTENDS LR1, Json, TLC

Batch == JsonDeserialize("batch.json")

(* FIRST/nullable of every grammar, evaluated once *)
FirstAll == [i \in 1..Len(Batch) |-> FirstSets(Batch[i].abs)]
NullAll  == [i \in 1..Len(Batch) |-> NullableSet(Batch[i].abs)]

VARIABLES g, q, I, path
vars == <<g, q, I, path>>
View == <<g, q, I>>

G == Batch[g].abs
F == FirstAll[g]
N == NullAll[g]

Init == /\ g \in 1..Len(Batch)
        /\ q = 0
        /\ I = InitialItems(Batch[g].abs, FirstAll[g], NullAll[g])
        /\ path = <<>>

RealAct(qq, t) == Batch[g].act[qq+1][Batch[g].col[t] + 1]
RealGoto(qq, X) == Batch[g].goto[qq+1][Batch[g].ntcol[X - G.nt] + 1]

(* the real successor on symbol X: -1 if there is none *)
RealNext(qq, X) ==
  IF IsNT(G, X) THEN RealGoto(qq, X)
  ELSE LET a == RealAct(qq, X) IN IF a.k = "shift" THEN a.n ELSE -1

Next == /\ q # -1 /\ I # {}
        /\ \E X \in Symbols(G) :
             /\ (RealNext(q, X) # -1 \/ Goto(G, F, N, I, X) # {})
             /\ q' = RealNext(q, X)
             /\ I' = Goto(G, F, N, I, X)
             /\ path' = Append(path, X)
        /\ UNCHANGED g

(* same transition structure *)
LiveAgree == (q = -1) <=> (I = {})

Live == q # -1 /\ I # {}

(* C02/C05: every real entry is the (resolved) canonical action *)
ActionAgree ==
  Live => \A t \in Terminals(G) :
     LET A == ActionSet(G, I, t) r == RealAct(q, t) IN
       IF A = {} THEN r.k = "none"
       ELSE LET a == Resolve(A) IN
            /\ r.k = a.k
            /\ a.k = "reduce" => r.n = a.n - 1     \* real productions are numbered from 0

(* entries of columns that belong to no terminal of the grammar are empty *)
NoStrayEntries ==
  Live => \A c \in 0..(Batch[g].ncols - 1) :
            (\A t \in Terminals(G) : Batch[g].col[t] # c) => Batch[g].act[q+1][c+1].k = "none"

(* the production table describes the grammar's productions *)
ProdTableAgree ==
  \A p \in 1..Len(G.prods) :
     /\ Batch[g].ptab[p].nsym = Len(G.prods[p].b)
     /\ Batch[g].ptab[p].nttype = Batch[g].ntcol[G.prods[p].h - G.nt]

(* C07: the states flagged as recovery states are those that can shift the error symbol *)
RecoverAgree == Live => (Batch[g].rec[q+1] <=> CanShiftError(G, I))

(* C04 is decided outside the state graph from the set of conflicting product states *)
ConflictHere == Live /\ \E t \in Terminals(G) : Conflict(G, I, t)
AcceptConflictHere == Live /\ \E t \in Terminals(G) : AcceptConflict(ActionSet(G, I, t))
=============================================================================
