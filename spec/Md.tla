---------------------------------- MODULE Md ----------------------------------
(***************************************************************************)
(* C19: extraction of fenced code from markdown (util/md.loadMd).          *)
(* The input is a sequence of characters of four kinds: "q" a back-quote,  *)
(* "n" a newline, "x" any other ASCII character, "u" a non-ASCII character. *)
(* loadMd is transcribed as a state machine (one action per loop           *)
(* iteration); the reference Blank says what the property demands: fences  *)
(* and everything outside fences become spaces, newlines are kept, code is *)
(* kept, and the length in characters never changes (that is what keeps    *)
(* line and column of every code character intact).                        *)
(* Domain of the property: every maximal run of back-quotes has length 3   *)
(* (a bare fence) or less (no ``` inside prose or code).                   *)
(***************************************************************************)
EXTENDS Integers, Sequences, FiniteSets, TLC, Json

CONSTANT MaxLen
Kinds == {"q", "n", "x", "u"}

(* maximal back-quote runs *)
RunStartsAt(s, k) == s[k] = "q" /\ (k = 1 \/ s[k-1] # "q")
RECURSIVE RunLen(_, _)
RunLen(s, k) == IF k > Len(s) \/ s[k] # "q" THEN 0 ELSE 1 + RunLen(s, k + 1)
InDomain(s) == \A k \in 1..Len(s) : RunStartsAt(s, k) => RunLen(s, k) <= 3

Inputs == {s \in UNION {[1..n -> Kinds] : n \in 0..MaxLen} : InDomain(s)}

(* ---- reference ---------------------------------------------------------- *)
(* Blank(s): walk the characters; a run of exactly three back-quotes is a   *)
(* fence: it is blanked and toggles the mode.                               *)
RECURSIVE BlankFrom(_, _, _)
BlankFrom(s, k, code) ==
  IF k > Len(s) THEN <<>>
  ELSE IF RunStartsAt(s, k) /\ RunLen(s, k) = 3
       THEN <<" ", " ", " ">> \o BlankFrom(s, k + 3, ~code)
       ELSE <<IF code \/ s[k] = "n" THEN s[k] ELSE " ">> \o BlankFrom(s, k + 1, code)
Blank(s) == BlankFrom(s, 1, FALSE)

(* ---- loadMd -------------------------------------------------------------- *)
VARIABLES input, buf, i, text, pc
vars == <<input, buf, i, text, pc>>

Init == /\ input \in Inputs /\ buf = input /\ i = 0 /\ text = TRUE /\ pc = "loop"

(* one iteration of: for i < len(input) { if fence {..}; if i < len(input) {..} } *)
Iter ==
  /\ pc = "loop" /\ i < Len(buf)
  /\ LET fence == i <= Len(buf) - 3 /\ buf[i+1] = "q" /\ buf[i+2] = "q" /\ buf[i+3] = "q"
         b1    == IF fence THEN [buf EXCEPT ![i+1] = " ", ![i+2] = " ", ![i+3] = " "] ELSE buf
         t1    == IF fence THEN ~text ELSE text
         i1    == IF fence THEN i + 3 ELSE i
     IN /\ text' = t1
        /\ IF i1 < Len(b1)
           THEN /\ buf' = IF t1 /\ b1[i1+1] # "n" THEN [b1 EXCEPT ![i1+1] = " "] ELSE b1
                /\ i' = i1 + 1
           ELSE buf' = b1 /\ i' = i1
  /\ UNCHANGED <<input, pc>>

Finish == pc = "loop" /\ i >= Len(buf) /\ pc' = "done" /\ UNCHANGED <<input, buf, i, text>>

Next == Iter \/ Finish
Spec == Init /\ [][Next]_vars

EqualsBlank == pc = "done" => buf = Blank(input)
LengthKept == Len(buf) = Len(input)
(* the code characters survive at their own positions *)
Dump == pc = "done" => PrintT(<<"MD", ToJson([inp |-> input, out |-> buf])>>)
=============================================================================
