----------------------------- MODULE MC_LexScan -----------------------------
(***************************************************************************)
(* The Scan loop checked against EVERY automaton: in each iteration the    *)
(* outcome of the table lookups is chosen nondeterministically (dead,      *)
(* live and accepting some token type, live and non-accepting, live and    *)
(* ignoring).  All source texts up to MaxLen runes over the rune kinds     *)
(* Kinds x Widths are explored.  What is checked (C08, and the loop half   *)
(* of C01 and C16):                                                        *)
(*   PosExact   every returned token carries offset/line/column of its     *)
(*              first byte as defined by the reference RefPos              *)
(*   Tiling     lexemes (tokens, INVALID text, ignored text) are adjacent   *)
(*              and cover the text from byte 0, in order                   *)
(*   LastWins   the type returned is the verdict of the last live state;   *)
(*              INVALID additionally swallows the rune that killed it      *)
(*   EOFSticky  after end of input every call returns EOF at the same place *)
(*   ResetFresh after Reset the lexer is indistinguishable from a new one  *)
(***************************************************************************)
EXTENDS LexScan, LexRef, TLC

CONSTANTS MaxLen, Kinds, Widths, TokTypes, MaxCalls

VARIABLES segs,    \* ghost: lexeme segments so far <<kind, from, to>>, in order of completion
          hist     \* ghost: outcomes of the lookups since the last (re)start of the current call

vars == <<lexvars, segs, hist>>

RECURSIVE Offsets(_, _)
Offsets(ws, o) == IF ws = <<>> THEN <<>> ELSE <<o>> \o Offsets(Tail(ws), o + Head(ws))

Texts ==
  UNION { { [i \in 1..n |-> [a |-> 1, w |-> ws[i], o |-> Offsets(ws, 0)[i], k |-> ks[i]]] :
              ws \in [1..n -> Widths], ks \in [1..n -> Kinds] } : n \in 0..MaxLen }

Init == /\ \E s \in Texts : LexInit(s)
        /\ segs = <<>> /\ hist = <<>>

Outcomes == {<<-1, -1, FALSE>>}                          \* no transition
       \cup {<<1, t, FALSE>> : t \in TokTypes \cup {INVALID}}   \* live, Accept = t (0 for a non-accepting state)
       \cup {<<1, -1, TRUE>>}                            \* live, ignored token complete

LoopStep ==
  \E o \in Outcomes :
     /\ (AtEnd => o[1] = -1)
     /\ Iterate(o[1], o[2], o[3])
     /\ IF o[1] # -1 /\ o[2] = -1 /\ o[3]
        THEN segs' = Append(segs, <<"ign", start, pos + 1>>) /\ hist' = <<>>
        ELSE segs' = segs /\ hist' = Append(hist, o)

AScanAtEOF == ncalls < MaxCalls /\ ScanAtEOF /\ UNCHANGED <<segs, hist>>
ABegin     == ncalls < MaxCalls /\ ScanBegin /\ hist' = <<>> /\ UNCHANGED segs
AEnd       == /\ ScanEnd
              /\ segs' = Append(segs, <<"tok", start, IF end > start THEN end ELSE start>>)
              /\ UNCHANGED hist
AReset     == Reset /\ ncalls > 0 /\ ncalls < MaxCalls /\ segs' = <<>> /\ hist' = <<>>

Next == AScanAtEOF \/ ABegin \/ LoopStep \/ AEnd \/ AReset

Spec == Init /\ [][Next]_vars

----------------------------------------------------------------------------
Returned == pc = "idle" /\ ncalls > 0

PosExact ==
  Returned => /\ <<ret.line, ret.col>> = RefPos(src, ret.from)
              /\ ret.from <= ret.to /\ ret.to <= Len(src)

(* the persistent cursor is consistent between calls *)
CursorExact ==
  pc = "idle" => <<line, col>> = RefPos(src, pos)

Tiling ==
  /\ \A i \in 1..Len(segs) : segs[i][2] = (IF i = 1 THEN 0 ELSE segs[i-1][3]) /\ segs[i][2] <= segs[i][3]
  /\ (pc = "idle" /\ segs # <<>>) => pos = segs[Len(segs)][3]
  /\ (Returned /\ ret.type = EOF /\ segs # <<>>) => segs[Len(segs)][3] = Len(src)
  /\ Returned /\ ret.type # EOF => ret.to > ret.from     \* no empty token

(* the verdict of the last live state decides, INVALID swallows the killer *)
LastWins ==
  (Returned /\ ret.type # EOF /\ hist # <<>>) =>
     LET n    == Len(hist)
         live == IF hist[n][1] = -1 THEN n - 1 ELSE n     \* runes read while the text stayed viable
         last == IF live = 0 THEN INVALID ELSE hist[live][2]
     IN /\ ret.type = last
        /\ ret.to - ret.from = live + (IF last = INVALID /\ ret.from + live < Len(src) THEN 1 ELSE 0)

EOFSticky ==
  [][(pc = "idle" /\ ret.type = EOF /\ ncalls > 0 /\ ncalls' = ncalls + 1 /\ pos' = pos)
        => (ret'.type = EOF /\ ret'.from = ret.from /\ ret'.line = ret.line /\ ret'.col = ret.col)]_vars

ResetFresh ==
  [][(pc = "idle" /\ pos' = 0 /\ ncalls' = ncalls /\ pc' = "idle" /\ ncalls > 0)
        => (line' = 1 /\ col' = 1)]_vars

(* the loop terminates: every iteration consumes a rune or ends the loop *)
Progress ==
  [][(pc = "loop" /\ pc' = "loop") => (pos' > pos \/ state' = -1)]_vars
=============================================================================
