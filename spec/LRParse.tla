------------------------------- MODULE LRParse -------------------------------
(***************************************************************************)
(* The generated Parser.Parse driver (template parser/gen/golang/parser.go)*)
(* as a state machine over parse tables: one action per loop iteration of  *)
(* the driver, plus the steps of error recovery.  The tables are a         *)
(* parameter (operators TAct, TGoto, ...): MC_LRParse instantiates them    *)
(* with the canonical LR(1) tables of LR1.tla, LRTrace with the tables     *)
(* read out of a real generated parser (or, for end-to-end checks, again   *)
(* with the canonical ones).                                               *)
(*                                                                         *)
(* Tokens are identified by their position in the stream the scanner hands *)
(* out (1, 2, ...): token i has terminal input[i] for i <= Len(input) and  *)
(* is an end-of-input token afterwards (a fresh object per Scan call).     *)
(* Terminal 0 stands for INVALID (a token no grammar symbol matches).      *)
(* Attributes: [k |-> "t", i] the token object i itself; [k |-> "n", i]    *)
(* the value returned by the i-th action call; [k |-> "nil"]; [k |-> "e",  *)
(* i, syms, exp] an error attribute for offending token i, the attributes  *)
(* discarded from the stack and the expected terminals.                    *)
(***************************************************************************)
EXTENDS Integers, Sequences, FiniteSets

CONSTANTS
  TInit(_),         \* initial state of table set g
  TAct(_, _, _),    \* TAct(g, s, t) = [k, n]: k in shift/reduce/accept/none
  TGoto(_, _, _),   \* TGoto(g, s, p): state after reducing production p with s on top
  TPLen(_, _),      \* number of body symbols of production p
  THasAct(_, _),    \* production p has an action expression
  TTerms(_),        \* the set of terminals of g (1 = end of input), without INVALID
  TErr(_)           \* the terminal that is the error symbol, 0 if none

VARIABLES
  g,        \* table set / grammar in use
  input,    \* terminals of the scripted token stream
  failAt,   \* the failAt-th action call returns an error (0: none)
  pc,       \* "idle", "run", "skip" (discarding input during recovery), "done"
  stack,    \* sequence of [s |-> state, a |-> attribute]
  nxt,      \* position of the look-ahead token = number of Scan calls so far
  ncall,    \* number of action calls so far
  etok,     \* offending token of the recovery in progress
  out       \* outcome of the finished Parse

pvars == <<g, input, failAt, pc, stack, nxt, ncall, etok, out>>

EOFT == 1
Nil == [k |-> "nil", i |-> 0]
TokType(i) == IF i <= Len(input) THEN input[i] ELSE EOFT
Top == stack[Len(stack)].s
\* a state number below zero is what a missing goto entry leaves on the stack of a parser whose
\* tables are broken: no action there (the real parser cannot index its table either)
Act(s, t) == IF t = 0 \/ s < 0 THEN [k |-> "none", n |-> 0] ELSE TAct(g, s, t)
Expected(s) == {t \in TTerms(g) : Act(s, t).k # "none"}
NoOut == [ok |-> FALSE, res |-> Nil, tok |-> 0, exp |-> {}, injected |-> FALSE, syms |-> <<>>]

(* Parse(scanner): Reset, then the first Scan *)
Begin(gi, inp, fa) ==
  /\ pc \in {"idle", "done"}
  /\ g' = gi /\ input' = inp /\ failAt' = fa
  /\ pc' = "run"
  /\ stack' = <<[s |-> TInit(gi), a |-> Nil]>>
  /\ nxt' = 1 /\ ncall' = 0 /\ etok' = 0 /\ out' = NoOut

Shift ==
  /\ pc = "run" /\ Act(Top, TokType(nxt)).k = "shift"
  /\ stack' = Append(stack, [s |-> Act(Top, TokType(nxt)).n, a |-> [k |-> "t", i |-> nxt]])
  /\ nxt' = nxt + 1                              \* p.nextToken = scanner.Scan()
  /\ UNCHANGED <<g, input, failAt, pc, ncall, etok, out>>

(* arguments of a reduction by p: the attributes of the body, left to right *)
RedArgs(p) == [j \in 1..TPLen(g, p) |-> stack[Len(stack) - TPLen(g, p) + j].a]

Reduce ==
  /\ pc = "run" /\ Act(Top, TokType(nxt)).k = "reduce"
  \* a production table that asks for more symbols than the stack holds above its bottom entry is
  \* broken: no step here (the real parser cannot index its stack either), the trace is rejected
  /\ TPLen(g, Act(Top, TokType(nxt)).n) < Len(stack)
  /\ LET p     == Act(Top, TokType(nxt)).n
         n     == TPLen(g, p)
         args  == RedArgs(p)
         rest  == SubSeq(stack, 1, Len(stack) - n)
         under == rest[Len(rest)].s
         calls == IF THasAct(g, p) THEN ncall + 1 ELSE ncall
         val   == IF THasAct(g, p) THEN [k |-> "n", i |-> calls]
                  ELSE IF n > 0 THEN args[1] ELSE Nil
     IN /\ ncall' = calls
        /\ IF THasAct(g, p) /\ calls = failAt
           THEN \* the action returned an error: Parse stops at once
                /\ pc' = "done" /\ stack' = rest
                /\ out' = [ok |-> FALSE, res |-> Nil, tok |-> nxt, exp |-> Expected(under),
                           injected |-> TRUE, syms |-> <<>>]
           ELSE /\ stack' = Append(rest, [s |-> TGoto(g, under, p), a |-> val])
                /\ UNCHANGED <<pc, out>>
  /\ UNCHANGED <<g, input, failAt, nxt, etok>>

Accept ==
  /\ pc = "run" /\ Act(Top, TokType(nxt)).k = "accept"
  /\ pc' = "done"
  /\ out' = [ok |-> TRUE, res |-> stack[Len(stack)].a, tok |-> 0, exp |-> {}, injected |-> FALSE, syms |-> <<>>]
  /\ stack' = SubSeq(stack, 1, Len(stack) - 1)
  /\ UNCHANGED <<g, input, failAt, nxt, ncall, etok>>

(* ---- syntax error: no entry for the look-ahead -------------------------- *)
CanShiftErr(s) == TErr(g) # 0 /\ Act(s, TErr(g)).k = "shift"
RecoveryIdx == {i \in 1..Len(stack) : CanShiftErr(stack[i].s)}

(* no state on the stack can shift the error symbol: return the error *)
Fail ==
  /\ pc = "run" /\ Act(Top, TokType(nxt)).k = "none" /\ RecoveryIdx = {}
  /\ pc' = "done"
  /\ out' = [ok |-> FALSE, res |-> Nil, tok |-> nxt, exp |-> Expected(Top), injected |-> FALSE, syms |-> <<>>]
  /\ UNCHANGED <<g, input, failAt, stack, nxt, ncall, etok>>

(* discard the stack above the topmost state that can shift the error     *)
(* symbol and shift the error symbol with an error attribute               *)
Recover ==
  /\ pc = "run" /\ Act(Top, TokType(nxt)).k = "none" /\ RecoveryIdx # {}
  /\ LET i    == CHOOSE x \in RecoveryIdx : \A y \in RecoveryIdx : y <= x
         kept == SubSeq(stack, 1, i)
         gone == [j \in 1..(Len(stack) - i) |-> stack[i + j].a]
         ea   == [k |-> "e", i |-> nxt, syms |-> gone, exp |-> Expected(stack[i].s)]
     IN stack' = Append(kept, [s |-> TAct(g, stack[i].s, TErr(g)).n, a |-> ea])
  /\ pc' = "skip" /\ etok' = nxt
  /\ UNCHANGED <<g, input, failAt, nxt, ncall, out>>

(* skip input, starting with the offending token, up to the first token   *)
(* that is acceptable after the error symbol                               *)
Skip ==
  /\ pc = "skip" /\ Act(Top, TokType(nxt)).k = "none" /\ TokType(nxt) # EOFT
  /\ nxt' = nxt + 1
  /\ UNCHANGED <<g, input, failAt, pc, stack, ncall, etok, out>>

Resume ==
  /\ pc = "skip" /\ Act(Top, TokType(nxt)).k # "none"
  /\ pc' = "run"
  /\ UNCHANGED <<g, input, failAt, stack, nxt, ncall, etok, out>>

(* the input ended first: the error is returned, naming the offending token *)
GiveUp ==
  /\ pc = "skip" /\ Act(Top, TokType(nxt)).k = "none" /\ TokType(nxt) = EOFT
  /\ pc' = "done"
  /\ out' = [ok |-> FALSE, res |-> Nil, tok |-> etok, exp |-> Expected(Top), injected |-> FALSE,
             syms |-> <<>>]
  /\ UNCHANGED <<g, input, failAt, stack, nxt, ncall, etok>>

Step == Shift \/ Reduce \/ Accept \/ Fail \/ Recover \/ Skip \/ Resume \/ GiveUp
=============================================================================
