---------------------------------- MODULE Conc ----------------------------------
(***************************************************************************)
(* C17: independent lexer/parser instances used concurrently.              *)
(* N goroutines; goroutine p performs K[p] observable steps (every Scan    *)
(* call and every action call of its Parse is a gate).  Each goroutine     *)
(* owns its lexer, parser and logging context: its state is a function of  *)
(* the number of steps IT has taken; the generated tables are constants.   *)
(* That is the design claim, stated as the invariant Independent: whatever *)
(* the interleaving, what a goroutine has computed depends on its own      *)
(* progress only.  TLC enumerates the interleavings; every complete        *)
(* schedule is printed and replayed on the real generated code (gates      *)
(* block until the schedule says so), built with the race detector.        *)
(***************************************************************************)
EXTENDS Integers, Sequences, FiniteSets, TLC, Json

K == JsonDeserialize("k.json")      \* K[p]: number of gates of goroutine p, a sequence

Procs == 1..Len(K)

VARIABLES cnt,    \* cnt[p]: gates passed by p
          own,    \* own[p]: p's private state: the trace of its own steps
          sched   \* the interleaving so far

vars == <<cnt, own, sched>>

Init == /\ cnt = [p \in Procs |-> 0]
        /\ own = [p \in Procs |-> <<>>]
        /\ sched = <<>>

Step(p) == /\ cnt[p] < K[p]
           /\ cnt' = [cnt EXCEPT ![p] = @ + 1]
           /\ own' = [own EXCEPT ![p] = Append(@, cnt[p] + 1)]   \* reads and writes own[p] only
           /\ sched' = Append(sched, p)

Next == \E p \in Procs : Step(p)
Spec == Init /\ [][Next]_vars

Independent == \A p \in Procs : own[p] = [i \in 1..cnt[p] |-> i]
Complete == \A p \in Procs : cnt[p] = K[p]
DumpSchedule == Complete => PrintT(<<"SCHED", ToJson(sched)>>)
=============================================================================
