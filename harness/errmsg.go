package main

import (
	"encoding/json"
	"fmt"
	"os"
	"path/filepath"
	"strings"
	"time"
)

// ---------------------------------------------------------------------------------------
// ErrMsg.tla: the rendering of a syntax error (errors.Error.Error / String, DescribeExpected,
// DescribeToken, token.Pos.String). TLC enumerates error values, checks on the rendering what a
// user relies on (every expected terminal shown, in order; position; lexeme) and writes the
// table of expected texts; every row is replayed on the generated errors and token packages.
// A leg of C06: the error value carries the token and the exact expected set (checked by
// trace validation); this leg shows that the text shows what the value carries.

func init() {
	replayers["errmsg"] = replayErrMsg
}

const errMsgDrvSrc = `package main

import (
	"encoding/json"
	stderrors "errors"
	"fmt"
	"os"

	"scratch/g000/errors"
	"scratch/g000/token"
)

type src string

func (s src) Source() string { return string(s) }

type ev struct {
	Exp  [][]byte
	Typ  int
	Lit  []byte
	Off  int
	Line int
	Col  int
	Src  []byte
	Err  []byte
}

type row struct {
	E   ev
	Msg []byte
	Str []byte
	Pos []byte
}

func b(xs []int) []byte {
	o := make([]byte, len(xs))
	for i, x := range xs {
		o[i] = byte(x)
	}
	return o
}

type jev struct {
	Exp  [][]int ` + "`json:\"exp\"`" + `
	Typ  int     ` + "`json:\"typ\"`" + `
	Lit  []int   ` + "`json:\"lit\"`" + `
	Off  int     ` + "`json:\"off\"`" + `
	Line int     ` + "`json:\"line\"`" + `
	Col  int     ` + "`json:\"col\"`" + `
	Src  []int   ` + "`json:\"src\"`" + `
	Err  []int   ` + "`json:\"err\"`" + `
}
type jrow struct {
	E   jev   ` + "`json:\"e\"`" + `
	Msg []int ` + "`json:\"msg\"`" + `
	Str []int ` + "`json:\"str\"`" + `
	Pos []int ` + "`json:\"pos\"`" + `
}

func call(f func() string) (s string, panicked bool) {
	defer func() {
		if r := recover(); r != nil {
			s, panicked = fmt.Sprint(r), true
		}
	}()
	return f(), false
}

func main() {
	raw, err := os.ReadFile(os.Args[1])
	if err != nil {
		panic(err)
	}
	var in struct {
		Rows []jrow ` + "`json:\"rows\"`" + `
	}
	if err := json.Unmarshal(raw, &in); err != nil {
		panic(err)
	}
	bad := 0
	report := func(fn string, r jrow, got string, want []byte) {
		if bad < 20 {
			o, _ := json.Marshal(map[string]interface{}{"fn": fn, "row": r, "got": got, "want": string(want)})
			fmt.Printf("VERIF-MISMATCH %s\n", o)
		}
		bad++
	}
	for _, r := range in.Rows {
		// the lexeme is a window into the source text, as a lexer hands it out: its capacity reaches
		// to the end of the source
		lit := b(r.E.Lit)
		source := append(append([]byte("<<"), lit...), []byte(">> the rest of the source text\n")...)
		pristine := string(source)
		tok := &token.Token{Type: token.Type(r.E.Typ), Lit: source[2 : 2+len(lit)], Pos: token.Pos{Offset: r.E.Off, Line: r.E.Line, Column: r.E.Col}}
		if len(r.E.Src) > 0 {
			tok.Pos.Context = src(b(r.E.Src))
		}
		e := &errors.Error{ErrorToken: tok, StackTop: 0}
		for _, x := range r.E.Exp {
			e.ExpectedTokens = append(e.ExpectedTokens, string(b(x)))
		}
		if len(r.E.Err) > 0 {
			e.Err = stderrors.New(string(b(r.E.Err)))
		}
		before := fmt.Sprint(e.ExpectedTokens)
		if got, _ := call(e.Error); got != string(b(r.Msg)) {
			report("Error()", r, got, b(r.Msg))
		}
		// rendering twice gives the same text and leaves the error value alone
		if got, _ := call(e.Error); got != string(b(r.Msg)) {
			report("Error() called a second time", r, got, b(r.Msg))
		}
		if after := fmt.Sprint(e.ExpectedTokens); after != before {
			report("Error() changed ExpectedTokens", r, after, []byte(before))
		}
		if got, _ := call(e.String); got != string(b(r.Str)) {
			report("String()", r, got, b(r.Str))
		}
		if got, _ := call(tok.Pos.String); got != string(b(r.Pos)) {
			report("Pos.String()", r, got, b(r.Pos))
		}
		if string(source) != pristine {
			report("rendering the error wrote into the source text", r, string(source), []byte(pristine))
		}
	}
	fmt.Printf("VERIF-STATS rows=%d mismatches=%d\n", len(in.Rows), bad)
}
`

func (c *Ctx) errMsgDriver(tag string) (string, *Module) {
	m := c.NewModule(tag)
	run := m.Gocc("g000", "S : a S | b ;\n")
	if run.Code != 0 {
		infra("gocc failed on a trivial grammar: %s", run.Out)
	}
	mustWrite(filepath.Join(m.Dir, "errdrv", "main.go"), []byte(errMsgDrvSrc))
	bin := filepath.Join(m.Dir, "errdrv", "errdrv")
	if o, ok := m.Build("errdrv", bin); !ok {
		infra("error-message driver does not compile: %s", tail(o, 20))
	}
	return bin, m
}

// errMsgLeg runs ErrMsg.tla and replays its table on the generated packages.
func (c *Ctx) errMsgLeg() {
	maxList, maxLong := c.pick(3, 4), c.pick(5, 7)
	cfg := fmt.Sprintf("INIT Init\nNEXT Next\nCONSTANTS\n  MaxList = %d\n  MaxLong = %d\nCHECK_DEADLOCK FALSE\n", maxList, maxLong)
	r := c.RunTLC(TLCOpts{Module: "ErrMsg", Cfg: cfg, Workers: 1, Timeout: 40 * time.Minute})
	if !r.OK {
		infra("ErrMsg.tla: the rendering model violates its own properties, or TLC failed (%s): needs attention\n%s", r.ErrKind, tail(filterTLC(r.Out), 30))
	}
	tpath := filepath.Join(r.Dir, "errmsg.json")
	b, err := os.ReadFile(tpath)
	if err != nil {
		infra("ErrMsg wrote no output")
	}
	var out struct {
		N int `json:"n"`
	}
	if err := json.Unmarshal(b, &out); err != nil {
		infra("errmsg.json: %v", err)
	}
	bin, m := c.errMsgDriver("errmsg")
	r2 := runCmd(cmdOpts{Dir: m.Dir, Timeout: 20 * time.Minute}, bin, tpath)
	if !strings.Contains(r2.Out, "VERIF-STATS") {
		infra("error-message driver failed: %s", tail(r2.Out, 20))
	}
	for _, mm := range linesWith(r2.Out, "VERIF-MISMATCH") {
		var e struct {
			Fn   string         `json:"fn"`
			Row  map[string]any `json:"row"`
			Got  string         `json:"got"`
			Want string         `json:"want"`
		}
		json.Unmarshal([]byte(mm), &e)
		if c.firstFor("errmsg" + e.Fn) {
			c.Violation(Replay{Kind: "errmsg", What: fmt.Sprintf("the generated errors package renders an error value differently from ErrMsg.tla: %s gives %q, the value calls for %q", e.Fn, e.Got, e.Want),
				Data: map[string]any{"row": e.Row, "fn": e.Fn}})
		}
	}
	c.Add("states", int64(out.N))
	c.Add("evaluations", int64(out.N)*5)
	c.Add("traces_validated_against_impl", int64(out.N))
	c.Set("error_rendering", map[string]any{"error_values_enumerated_by_tlc": out.N, "max_list_all_names": maxList, "max_list_few_names": maxLong,
		"replayed_on": "errors.Error.Error (twice), Error.String, token.Pos.String of a generated parser; the lexeme is a window into a source buffer that rendering must leave untouched", "properties_on_the_model": []string{"ShowsExactlyTheExpected", "ShowsPosition", "ShowsLexeme"}})
}

func replayErrMsg(c *Ctx, r *Replay) (bool, string) {
	row, _ := r.Data["row"].(map[string]any)
	if row == nil {
		return false, "replay file has no row"
	}
	tpath := filepath.Join(c.Scratch, "errrow.json")
	mustWrite(tpath, mustJSON(map[string]any{"rows": []any{row}}))
	bin, m := c.errMsgDriver("errmsgr")
	r2 := runCmd(cmdOpts{Dir: m.Dir, Timeout: 5 * time.Minute}, bin, tpath)
	if !strings.Contains(r2.Out, "VERIF-STATS") {
		infra("error-message driver failed: %s", tail(r2.Out, 20))
	}
	if mm := linesWith(r2.Out, "VERIF-MISMATCH"); len(mm) > 0 {
		return true, mm[0]
	}
	return false, "rendering agrees with ErrMsg.tla"
}
