package main

import (
	"encoding/json"
	"fmt"
	"os"
	"path/filepath"
	"regexp"
	"runtime"
	"strconv"
	"strings"
	"time"
)

// TLCOpts describes one TLC run. The run directory is a scratch copy of /verif/spec plus Files.
type TLCOpts struct {
	Module    string            // root module, e.g. "MC_LexScan"
	Cfg       string            // name of a .cfg file in /verif/spec, or literal config text (contains a newline)
	Files     map[string][]byte // data files placed next to the modules
	Workers   int               // 0 = all cores
	Timeout   time.Duration
	Simulate  string // e.g. "num=200" (enables -simulate)
	Depth     int
	Coverage  bool
	DFS       bool // depth-first state queue (trace specs that branch)
	ExtraArgs []string
	Defines   map[string]string // written into an extra module "Params.tla"? (unused)
}

type TLCResult struct {
	Out         string
	Dir         string
	Generated   int64
	Distinct    int64
	Depth       int64
	OK          bool   // finished, no error
	ErrKind     string // "", invariant, property, deadlock, assumption, postcondition, eval, parse, timeout
	InvViolated string
	Trace       []map[string]any // counterexample states (variable -> value), if any
	Dur         time.Duration
}

var (
	reStates  = regexp.MustCompile(`(\d+) states generated, (\d+) distinct states found`)
	reDepth   = regexp.MustCompile(`depth of the complete state graph search is (\d+)`)
	reInv     = regexp.MustCompile(`Invariant (\S+) is violated`)
	reSimStat = regexp.MustCompile(`The number of states generated: (\d+)`)
)

// RunTLC runs TLC and parses its verdict. Infrastructure failures (parse errors, evaluation
// errors, time-outs) are returned in ErrKind and are never treated as violations by callers
// unless they decide so explicitly.
func (c *Ctx) RunTLC(o TLCOpts) *TLCResult {
	c.mu.Lock()
	c.tlcSeq++
	dir := filepath.Join(c.Scratch, fmt.Sprintf("tlc%03d", c.tlcSeq))
	c.mu.Unlock()
	os.MkdirAll(dir, 0o755)
	specs, _ := filepath.Glob(filepath.Join(verifRoot, "spec", "*.tla"))
	for _, s := range specs {
		b, err := os.ReadFile(s)
		if err != nil {
			infra("read spec: %v", err)
		}
		mustWrite(filepath.Join(dir, filepath.Base(s)), b)
	}
	cfgName := o.Module + "_run.cfg"
	if strings.Contains(o.Cfg, "\n") {
		mustWrite(filepath.Join(dir, cfgName), []byte(o.Cfg))
	} else {
		b, err := os.ReadFile(filepath.Join(verifRoot, "spec", o.Cfg))
		if err != nil {
			infra("read cfg: %v", err)
		}
		mustWrite(filepath.Join(dir, cfgName), b)
	}
	for n, b := range o.Files {
		mustWrite(filepath.Join(dir, n), b)
	}
	w := o.Workers
	if w == 0 {
		w = runtime.NumCPU()
	}
	args := []string{"-XX:+UseParallelGC", "-Xss256m"}
	if o.DFS {
		args = append(args, "-Dtlc2.tool.queue.IStateQueue=StateDeque")
	}
	args = append(args, "-cp", "/opt/veriftools/tla/tla2tools.jar:/opt/veriftools/tla/CommunityModules-deps.jar", "tlc2.TLC",
		"-metadir", filepath.Join(dir, "md"), "-workers", strconv.Itoa(w), "-noGenerateSpecTE",
		"-config", cfgName)
	if o.Simulate != "" {
		args = append(args, "-simulate", o.Simulate)
		if o.Depth > 0 {
			args = append(args, "-depth", strconv.Itoa(o.Depth))
		}
		args = append(args, "-seed", strconv.FormatInt(c.Seed, 10))
	} else {
		args = append(args, "-dumpTrace", "json", "cex.json")
	}
	if o.Coverage {
		args = append(args, "-coverage", "1")
	}
	args = append(args, o.ExtraArgs...)
	args = append(args, o.Module+".tla")
	if o.Timeout == 0 {
		o.Timeout = 15 * time.Minute
	}
	r := runCmd(cmdOpts{Dir: dir, Timeout: o.Timeout}, "java", args...)
	res := &TLCResult{Out: r.Out, Dir: dir, Dur: r.Dur}
	if m := reStates.FindAllStringSubmatch(r.Out, -1); len(m) > 0 {
		last := m[len(m)-1]
		res.Generated, _ = strconv.ParseInt(last[1], 10, 64)
		res.Distinct, _ = strconv.ParseInt(last[2], 10, 64)
	} else if m := reSimStat.FindStringSubmatch(r.Out); m != nil {
		res.Generated, _ = strconv.ParseInt(m[1], 10, 64)
	}
	if m := reDepth.FindStringSubmatch(r.Out); m != nil {
		res.Depth, _ = strconv.ParseInt(m[1], 10, 64)
	}
	switch {
	case r.TimedOut:
		res.ErrKind = "timeout"
	case strings.Contains(r.Out, "Model checking completed. No error has been found."),
		o.Simulate != "" && r.Code == 0 && !strings.Contains(r.Out, "Error:"):
		res.OK = true
	case reInv.MatchString(r.Out):
		res.ErrKind = "invariant"
		res.InvViolated = reInv.FindStringSubmatch(r.Out)[1]
	case strings.Contains(r.Out, "Action property") || strings.Contains(r.Out, "Temporal properties were violated"):
		res.ErrKind = "property"
	case strings.Contains(r.Out, "Deadlock reached"):
		res.ErrKind = "deadlock"
	case strings.Contains(r.Out, "Assumption") && strings.Contains(r.Out, "is false"):
		res.ErrKind = "assumption"
	case strings.Contains(r.Out, "The postcondition") || strings.Contains(r.Out, "Checking postcondition failed") || strings.Contains(r.Out, "postcondition"):
		res.ErrKind = "postcondition"
	case strings.Contains(r.Out, "Parsing or semantic analysis failed") || strings.Contains(r.Out, "*** Errors:") || strings.Contains(r.Out, "Fatal errors while parsing"):
		res.ErrKind = "parse"
	default:
		res.ErrKind = "eval"
	}
	if b, err := os.ReadFile(filepath.Join(dir, "cex.json")); err == nil && (res.ErrKind == "invariant" || res.ErrKind == "property" || res.ErrKind == "deadlock") {
		var cx struct {
			Counterexample struct {
				State [][]json.RawMessage `json:"state"`
			} `json:"counterexample"`
		}
		if json.Unmarshal(b, &cx) == nil {
			for _, st := range cx.Counterexample.State {
				if len(st) == 2 {
					var m map[string]any
					if json.Unmarshal(st[1], &m) == nil {
						res.Trace = append(res.Trace, m)
					}
				}
			}
		}
	}
	c.Add("tlc_runs", 1)
	return res
}

// mustOK aborts with an infrastructure error unless the run finished cleanly.
func (r *TLCResult) mustOK(what string) {
	if !r.OK {
		infra("TLC (%s) did not finish cleanly: kind=%s\n%s", what, r.ErrKind, tail(filterTLC(r.Out), 60))
	}
}

func filterTLC(out string) string {
	var b strings.Builder
	for _, l := range strings.Split(out, "\n") {
		if strings.HasPrefix(l, "Semantic processing") || strings.HasPrefix(l, "Linting of") || strings.HasPrefix(l, "Parsing file") {
			continue
		}
		b.WriteString(l)
		b.WriteByte('\n')
	}
	return b.String()
}

func tail(s string, n int) string {
	ls := strings.Split(strings.TrimRight(s, "\n"), "\n")
	if len(ls) > n {
		ls = ls[len(ls)-n:]
	}
	return strings.Join(ls, "\n")
}

// coverageZero lists the spec locations that -coverage reported as never evaluated/taken
// for the named actions (lines like "<Action line .. of module M>: 0:0").
func coverageZero(out string, actions []string) []string {
	var zero []string
	for _, a := range actions {
		re := regexp.MustCompile(`<` + regexp.QuoteMeta(a) + ` line[^>]*>: (\d+):(\d+)`)
		ms := re.FindAllStringSubmatch(out, -1)
		if len(ms) == 0 {
			zero = append(zero, a+" (no coverage line)")
			continue
		}
		last := ms[len(ms)-1]
		if last[2] == "0" {
			zero = append(zero, a)
		}
	}
	return zero
}
