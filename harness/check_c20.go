package main

import (
	"encoding/json"
	"fmt"
	"os"
	"path/filepath"
	"strings"
	"time"
	"unicode/utf8"
)

func init() {
	register("C20", checkC20)
	replayers["litconv"] = replayLitConv
}

const litDrvSrc = `package main

import (
	"encoding/json"
	"fmt"
	"os"
	"strconv"
	"unicode/utf8"

	"scratch/g000/util"
)

func rv(lit []byte) (r rune, panicked bool) {
	defer func() {
		if recover() != nil {
			panicked = true
		}
	}()
	return util.RuneValue(lit), false
}

func spellings(v rune) []string {
	var s []string
	if v != '\'' && v != '\\' && v != '\n' && utf8.ValidRune(v) {
		s = append(s, "'"+string(v)+"'")
	}
	if v < 256 {
		s = append(s, fmt.Sprintf("'\\x%02x'", v), fmt.Sprintf("'\\x%02X'", v), fmt.Sprintf("'\\%03o'", v))
	}
	if v < 0x10000 {
		s = append(s, fmt.Sprintf("'\\u%04x'", v), fmt.Sprintf("'\\u%04X'", v))
	}
	s = append(s, fmt.Sprintf("'\\U%08x'", v), fmt.Sprintf("'\\U%08X'", v))
	return s
}

func main() {
	bad := 0
	report := func(fn, lit string, got interface{}, pan bool, want interface{}) {
		if bad < 20 {
			b, _ := json.Marshal(map[string]interface{}{"lit": lit, "got": got, "panicked": pan, "want": want, "fn": fn})
			fmt.Printf("VERIF-MISMATCH %s\n", b)
		}
		bad++
	}
	n, sweep, ints := 0, 0, 0
	if len(os.Args) > 1 && os.Args[1] != "" {
		b, err := os.ReadFile(os.Args[1])
		if err != nil {
			panic(err)
		}
		var lits []struct {
			Lit  string ` + "`json:\"lit\"`" + `
			Want rune   ` + "`json:\"want\"`" + `
		}
		if err := json.Unmarshal(b, &lits); err != nil {
			panic(err)
		}
		for _, l := range lits {
			n++
			if got, pan := rv([]byte(l.Lit)); pan || got != l.Want {
				report("util.RuneValue", l.Lit, got, pan, l.Want)
			}
		}
	}
	step := 0
	if len(os.Args) > 2 {
		step, _ = strconv.Atoi(os.Args[2])
	}
	if step > 0 {
		for v := rune(0); v <= 0x10ffff; v++ {
			if v >= 0xd800 && v <= 0xdfff {
				continue
			}
			if step > 1 && int(v)%step != 0 && v > 0x1000 && v < 0x10f000 && !(v >= 0xd000 && v <= 0xe100) && !(v >= 0xff00 && v <= 0x10100) {
				continue
			}
			for _, sp := range spellings(v) {
				sweep++
				want, _, _, err := strconv.UnquoteChar(sp[1:len(sp)-1], '\'')
				if err != nil || want != v {
					report("sweep", sp, want, false, v)
					continue
				}
				if got, pan := rv([]byte(sp)); pan || got != v {
					report("util.RuneValue", sp, got, pan, v)
				}
			}
		}
	}
	// IntValue / UintValue against strconv
	for _, s := range []string{"0", "1", "-1", "+1", "007", "9223372036854775807", "9223372036854775808", "-9223372036854775808", "-9223372036854775809",
		"18446744073709551615", "18446744073709551616", "", "+", "-", "1_000", "0x10", " 1", "1 ", "१", "00000000000000000000001", "-0", "+0"} {
		ints++
		g1, e1 := util.IntValue([]byte(s))
		w1, we1 := strconv.ParseInt(s, 10, 64)
		if g1 != w1 || (e1 == nil) != (we1 == nil) {
			report("util.IntValue", s, g1, false, w1)
		}
		g2, e2 := util.UintValue([]byte(s))
		w2, we2 := strconv.ParseUint(s, 10, 64)
		if g2 != w2 || (e2 == nil) != (we2 == nil) {
			report("util.UintValue", s, g2, false, w2)
		}
	}
	fmt.Printf("VERIF-STATS lits=%d sweep=%d ints=%d mismatches=%d\n", n, sweep, ints, bad)
}
`

type litCase struct {
	Lit  string `json:"lit"`
	Want rune   `json:"want"`
}

func checkC20(c *Ctx) {
	c.Level = "model_checking"
	c.Set("rule", "LitConv.tla states Go's rune-literal rule and a transcription of RuneValue/escapeCharVal; TLC enumerates every valid ASCII-spelled literal with digits from the boundary digit set (named, octal, \\x, \\u, \\U escapes; boundaries 0x7f/0x80/0xff, 0xd7ff/0xe000, 0xffff/0x10000, 0x10ffff) and checks agreement; every enumerated literal is then replayed on (i) the generated util.RuneValue, (ii) the generator's util.LitToRune (go test -overlay), (iii) a one-token grammar through the real gocc whose generated lexer must accept exactly that code point; outside TLC (pure-function territory) a Go loop sweeps all scalar values x all spellings against strconv.UnquoteChar and IntValue/UintValue against strconv on boundary decimals. distinct_nontrivial counts enumerated escape literals")
	c.Assume("strconv.UnquoteChar is the definition of Go's literal semantics for the sweep")
	r := c.RunTLC(TLCOpts{Module: "LitConv", Cfg: map[bool]string{true: "LitConv_quick.cfg", false: "LitConv_thorough.cfg"}[c.Quick()], Workers: 1, Timeout: 40 * time.Minute})
	if !r.OK {
		infra("LitConv.tla: transcription and Go rule disagree, or TLC failed (%s): needs attention\n%s", r.ErrKind, tail(filterTLC(r.Out), 30))
	}
	b, err := os.ReadFile(filepath.Join(r.Dir, "litconv.json"))
	if err != nil {
		infra("LitConv wrote no output")
	}
	var out struct {
		N    int     `json:"n"`
		Cand int     `json:"cand"`
		Lits [][]any `json:"lits"`
	}
	if err := json.Unmarshal(b, &out); err != nil {
		infra("litconv.json: %v", err)
	}
	var lits []litCase
	for _, e := range out.Lits {
		bs := e[0].([]any)
		var sb []byte
		for _, x := range bs {
			sb = append(sb, byte(x.(float64)))
		}
		lits = append(lits, litCase{Lit: string(sb), Want: rune(e[1].(float64))})
		if len(sb) > 3 {
			c.Distinct(string(sb))
		}
	}
	c.Add("states", int64(out.Cand))
	c.Add("transitions", int64(out.Cand))
	c.Set("literals_enumerated_by_tlc", len(lits))
	c.Set("candidates_examined_by_tlc", out.Cand)
	c.Sample(map[string]any{"literal": lits[len(lits)/2].Lit, "value": lits[len(lits)/2].Want})
	c.Sample(map[string]any{"literal": lits[len(lits)-1].Lit, "value": lits[len(lits)-1].Want})
	lpath := filepath.Join(c.Scratch, "lits.json")
	mustWrite(lpath, mustJSON(lits))
	step := c.pick(97, 1)

	report := func(out string) {
		for _, mm := range linesWith(out, "VERIF-MISMATCH") {
			var e struct {
				Lit, Fn  string
				Got      any
				Want     any
				Panicked bool
			}
			json.Unmarshal([]byte(mm), &e)
			if c.firstFor(e.Fn + e.Lit) {
				c.Violation(Replay{Kind: "litconv", What: fmt.Sprintf("%s(%s) = %v (panicked: %v), Go assigns %v", e.Fn, e.Lit, e.Got, e.Panicked, e.Want), Data: map[string]any{"lit": e.Lit, "want": e.Want, "fn": e.Fn}})
			}
		}
	}
	// (ii) generator's LitToRune, in-package
	res := c.overlayTest("internal/util", map[string]string{"util_litconv_verif_test.go": "zz_litconv_verif_test.go"}, "TestVerifLitConv",
		[]string{"VERIF_LITS=" + lpath, fmt.Sprintf("VERIF_SWEEP=%d", step)}, 30*time.Minute)
	report(res.Out)
	for _, st := range linesWith(res.Out, "VERIF-STATS") {
		var n, sw, mm int
		fmt.Sscanf(st, "lits=%d sweep=%d mismatches=%d", &n, &sw, &mm)
		c.Add("evaluations", int64(n+sw))
		c.Add("traces_validated_against_impl", int64(n))
		c.Set("sweep_LitToRune", sw)
	}
	// (i) generated util.RuneValue
	m := c.NewModule("c20")
	run := m.Gocc("g000", "t : 'a' ;\n")
	if run.Code != 0 {
		infra("gocc failed on a trivial grammar: %s", run.Out)
	}
	mustWrite(filepath.Join(m.Dir, "litdrv", "main.go"), []byte(litDrvSrc))
	bin := filepath.Join(m.Dir, "litdrv", "litdrv")
	if o, ok := m.Build("litdrv", bin); !ok {
		infra("literal driver does not compile: %s", tail(o, 20))
	}
	r2 := runCmd(cmdOpts{Dir: m.Dir, Timeout: 30 * time.Minute}, bin, lpath, fmt.Sprint(step))
	if !strings.Contains(r2.Out, "VERIF-STATS") {
		infra("literal driver failed: %s", tail(r2.Out, 20))
	}
	report(r2.Out)
	for _, st := range linesWith(r2.Out, "VERIF-STATS") {
		var n, sw, in, mm int
		fmt.Sscanf(st, "lits=%d sweep=%d ints=%d mismatches=%d", &n, &sw, &in, &mm)
		c.Add("evaluations", int64(n+sw+in))
		c.Add("traces_validated_against_impl", int64(n))
		c.Set("sweep_RuneValue", sw)
	}
	// (iii) through gocc: token K is  'k1' 'k2' <literal>
	c.litThroughGocc(lits)
}

// litThroughGocc: grammars with one token per literal, distinguished by a two-letter prefix;
// the generated lexer must return token K for prefix + the code point and must not for the
// neighbouring code points.
func (c *Ctx) litThroughGocc(lits []litCase) {
	chunk := 600
	if c.Quick() {
		// every escape literal shape, a sample of the plain ones
		var s []litCase
		for i, l := range lits {
			if len(l.Lit) > 3 && i%3 == 0 || i%9 == 0 {
				s = append(s, l)
			}
		}
		lits = s
	}
	var chunks [][]litCase
	for i := 0; i < len(lits); i += chunk {
		chunks = append(chunks, lits[i:min(len(lits), i+chunk)])
	}
	m := c.NewModule("c20g")
	type job struct {
		sub  string
		lits []litCase
	}
	var jobs []job
	for ci, ch := range chunks {
		var sb strings.Builder
		for k, l := range ch {
			fmt.Fprintf(&sb, "t%d : '%c' '%c' %s ;\n", k, 'a'+k/26, 'a'+k%26, l.Lit)
		}
		sub := fmt.Sprintf("g%03d", ci)
		run := m.Gocc(sub, sb.String())
		if run.Code != 0 || run.TimedOut {
			// find the literal gocc refuses: a valid Go rune literal that gocc cannot read
			for _, l := range ch {
				r1 := m.Gocc("single", "t : "+l.Lit+" ;\n")
				if r1.Code != 0 && c.firstFor("gocc"+l.Lit) {
					c.Violation(Replay{Kind: "litconv", What: fmt.Sprintf("gocc rejects the valid rune literal %s in a grammar (exit %d): %s", l.Lit, r1.Code, tail(r1.Out, 2)), Data: map[string]any{"lit": l.Lit, "want": l.Want, "fn": "gocc"}})
				}
			}
			continue
		}
		jobs = append(jobs, job{sub, ch})
	}
	var subs []string
	for _, j := range jobs {
		subs = append(subs, j.sub)
	}
	if len(subs) == 0 {
		return
	}
	drv, out := m.BuildLexDriver("drv", subs)
	if drv == nil {
		infra("literal lexers do not compile: %s", tail(out, 20))
	}
	var ops []lexOp
	for _, j := range jobs {
		var inputs [][]byte
		for k, l := range j.lits {
			pre := []byte{byte('a' + k/26), byte('a' + k%26)}
			for _, d := range []rune{0, -1, 1} {
				v := l.Want + d
				if v < 0 || v > 0x10ffff || !utf8.ValidRune(v) {
					v = l.Want
				}
				inputs = append(inputs, append(append([]byte{}, pre...), string(v)...))
			}
		}
		ops = append(ops, lexOp{Op: "scan", G: j.sub, Inputs: inputs, Extra: 0})
		ops = append(ops, lexOp{Op: "dump", G: j.sub, Probes: [][]rune{{0}}, NIds: len(j.lits) + 3})
	}
	res, _ := drv.Run(ops)
	for ji, j := range jobs {
		scans := res[2*ji].Scans
		ids := res[2*ji+1].TokId
		for k, l := range j.lits {
			c.Add("evaluations", 3)
			for d := 0; d < 3; d++ {
				toks := scans[3*k+d][0]
				in := ops[2*ji].Inputs[3*k+d]
				full := len(toks) > 0 && tokName(toks[0], ids) == fmt.Sprintf("t%d", k) && len(toks[0].Lit) == len(in)
				v := l.Want + []rune{0, -1, 1}[d]
				if v < 0 || v > 0x10ffff || !utf8.ValidRune(v) {
					v = l.Want
				}
				want := v == l.Want
				if full != want && c.firstFor("gocclex"+l.Lit) {
					c.Violation(Replay{Kind: "litconv", What: fmt.Sprintf("grammar token t : 'x' 'y' %s: the generated lexer %s the code point %#x (Go assigns the literal %#x)", l.Lit, map[bool]string{true: "accepts", false: "does not accept"}[full], v, l.Want),
						Data: map[string]any{"lit": l.Lit, "want": l.Want, "fn": "gocc"}})
				}
			}
			c.Add("traces_validated_against_impl", 1)
		}
	}
}

// replayLitConv re-evaluates one literal on all three consumers.
func replayLitConv(c *Ctx, r *Replay) (bool, string) {
	lit, _ := r.Data["lit"].(string)
	wantF, _ := r.Data["want"].(float64)
	want := rune(wantF)
	lits := []litCase{{Lit: lit, Want: want}}
	lpath := filepath.Join(c.Scratch, "rlits.json")
	mustWrite(lpath, mustJSON(lits))
	res := c.overlayTest("internal/util", map[string]string{"util_litconv_verif_test.go": "zz_litconv_verif_test.go"}, "TestVerifLitConv", []string{"VERIF_LITS=" + lpath}, 10*time.Minute)
	if mm := linesWith(res.Out, "VERIF-MISMATCH"); len(mm) > 0 {
		return true, mm[0]
	}
	m := c.NewModule("c20r")
	run := m.Gocc("g000", "t : 'a' 'b' "+lit+" ;\n")
	if run.Code != 0 {
		return true, "gocc rejects the literal: " + tail(run.Out, 2)
	}
	mustWrite(filepath.Join(m.Dir, "litdrv", "main.go"), []byte(litDrvSrc))
	bin := filepath.Join(m.Dir, "litdrv", "litdrv")
	if o, ok := m.Build("litdrv", bin); !ok {
		infra("literal driver does not compile: %s", tail(o, 20))
	}
	r2 := runCmd(cmdOpts{Dir: m.Dir, Timeout: 10 * time.Minute}, bin, lpath, "0")
	if mm := linesWith(r2.Out, "VERIF-MISMATCH"); len(mm) > 0 {
		return true, mm[0]
	}
	drv, out := m.BuildLexDriver("drv", []string{"g000"})
	if drv == nil {
		return true, "generated lexer does not compile: " + tail(out, 3)
	}
	in := append([]byte("ab"), string(want)...)
	rs, _ := drv.Run([]lexOp{{Op: "scan", G: "g000", Inputs: [][]byte{in}}})
	toks := rs[0].Scans[0][0]
	if len(toks) == 0 || toks[0].Type < 2 || len(toks[0].Lit) != len(in) {
		return true, fmt.Sprintf("lexer generated from t : 'a' 'b' %s does not accept the code point %#x", lit, want)
	}
	return false, "all consumers agree with Go"
}
