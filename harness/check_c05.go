package main

import (
	"fmt"
	"math/rand"
	"regexp"
	"strings"
	"time"
)

func init() {
	register("C05", checkC05)
	register("C06", checkC06)
	register("C03", checkC03)
	register("C07", checkC07)
}

var reResolve = regexp.MustCompile(`"RESOLVE", (\d+), (\d+)`)

// synTraceRound: records real runs of the given cases on the inputs and validates them in
// both modes (driver over real tables; whole parser against the canonical machine).
func (c *Ctx) synTraceRound(b *SynBatch, cases []*SynCase, hs []*synHistory, what string, modes []bool) {
	if len(hs) == 0 {
		return
	}
	c.recordSynTraces(b, hs)
	for _, ideal := range modes {
		for n, h := range c.validateSynTraces(cases, hs, ideal, false) {
			if n >= 5 {
				// five confirmed reports per round say what there is to say; every further
				// confirmation costs a build and, for a parser that hangs, a watchdog period
				c.Add("rejected_traces_not_confirmed_individually", 1)
				continue
			}
			c.confirmSynTrace(h, fmt.Sprintf("%s (trace against the driver model over %s tables)", what, map[bool]string{false: "the real", true: "the canonical"}[ideal]))
		}
	}
}

func checkC05(c *Ctx) {
	c.Level = "model_checking"
	c.Set("rule", "(1) TLC checks that gocc's pairwise resolution folded over EVERY permutation of every competing set (<= 4 competitors) equals shift-else-earliest-production; (2) for grammars with conflicts generated with -a, TLC explores the whole product of the real tables with the canonical LR(1) automaton and requires every entry to be the resolved canonical action (unaffected where nothing competes); (3) real Parse runs (all strings up to k, sentences, mutations) are validated against the driver model over the real and over the resolved canonical tables: same verdict and same reductions. distinct_nontrivial counts grammars with >= 1 conflict whose product was explored")
	r := c.RunTLC(TLCOpts{Module: "MC_Resolve", Cfg: "MC_Resolve.cfg", Workers: 1, Timeout: 10 * time.Minute})
	if !r.OK {
		infra("MC_Resolve failed (%s)\n%s", r.ErrKind, tail(filterTLC(r.Out), 30))
	}
	if m := reResolve.FindStringSubmatch(r.Out); m != nil {
		c.Set("resolution_order_independence", map[string]any{"competing_sets": atoi(m[1]), "permutations": atoi(m[2])})
		c.Add("states", int64(atoi(m[2])))
	}
	rng := rand.New(rand.NewSource(c.Seed))
	total := c.pick(70, 500)
	bs := c.pick(70, 125)
	for done := 0; done < total; done += bs {
		var gs []*SynGrammar
		if done == 0 {
			gs = append(gs, curatedSyn()...)
			gs = append(gs, repoSynGrammars()...)
		}
		for i := 0; i < min(bs, total-done); i++ {
			o := c04Opts
			o.PDup = 0.1
			o.Actions = i%2 == 0
			if i%5 == 4 {
				// more than ten productions: production numbers of one and of two digits compete
				o.MaxNT, o.MaxAlts, o.PDup = 5, 4, 0.2
			}
			if i%5 == 2 {
				// error alternatives compete like any others
				o.ErrorAlts = true
			}
			gs = append(gs, genSynGrammar(rng, o))
		}
		// every third grammar with compressed tables: the resolved entries travel through their
		// encoding too
		b := c.buildSynBatch(fmt.Sprintf("c05_%d", done), gs, [][]string{{"-a"}, {"-a", "-zip"}, {"-a"}})
		var cases []*SynCase
		for _, cs := range b.built() {
			if cs.Reported <= 0 {
				continue
			}
			if p := cs.pairingProblem(); p != "" {
				continue // C10's business
			}
			cases = append(cases, cs)
			c.Distinct(cs.Text)
		}
		c.Add("evaluations", int64(len(cases)))
		if len(cases) == 0 {
			continue
		}
		c.lrProduct(cases, []string{"LiveAgree", "ActionAgree", "ProdTableAgree"}, "C05")
		var hs []*synHistory
		for i, cs := range cases {
			for _, in := range synInputs(rng, cs.G, c.pick(3, 4), c.pick(20, 100), c.pick(4, 16), false) {
				hs = append(hs, &synHistory{Case: cs, CaseIx: i, Inputs: []synInput{{Toks: in}}})
			}
		}
		hs = c.dropLoopingInputs(cases, hs)
		c.synTraceRound(b, cases, hs, "C05", []bool{false, true})
		if done == 0 && len(cases) > 0 {
			c.Sample(map[string]any{"grammar": cases[len(cases)-1].Text, "conflicts_announced": cases[len(cases)-1].Reported, "flags": "-a"})
		}
	}
}

// dropLoopingInputs: a grammar with a cycle A =>+ A is ambiguous; its resolved parser can
// reduce forever (in the specification as well as in the generated code). Such grammars are
// detected on the abstract grammar (a nonterminal that derives itself) and left to the
// product check alone, which needs no run.
func (c *Ctx) dropLoopingInputs(cases []*SynCase, hs []*synHistory) []*synHistory {
	cyclic := map[*SynCase]bool{}
	for _, cs := range cases {
		if cs.G.hasCycle() {
			cyclic[cs] = true
			c.Add("cyclic_grammars_product_only", 1)
		}
	}
	var out []*synHistory
	for _, h := range hs {
		if !cyclic[h.Case] {
			out = append(out, h)
		}
	}
	return out
}

// hasCycle: some nonterminal A with A =>+ A (through unit steps with nullable context).
func (g *SynGrammar) hasCycle() bool {
	nullable := make([]bool, len(g.NTs))
	for again := true; again; {
		again = false
		for _, p := range g.Prods {
			if nullable[p.Head] {
				continue
			}
			ok := true
			for _, s := range p.Body {
				if !s.NT || !nullable[s.Idx] {
					ok = false
				}
			}
			if ok {
				nullable[p.Head] = true
				again = true
			}
		}
	}
	n := len(g.NTs)
	reach := make([][]bool, n)
	for i := range reach {
		reach[i] = make([]bool, n)
	}
	for _, p := range g.Prods {
		for k, s := range p.Body {
			if !s.NT {
				continue
			}
			ok := true
			for j, o := range p.Body {
				if j != k && (!o.NT || !nullable[o.Idx]) {
					ok = false
				}
			}
			if ok {
				reach[p.Head][s.Idx] = true
			}
		}
	}
	for k := 0; k < n; k++ {
		for i := 0; i < n; i++ {
			for j := 0; j < n; j++ {
				if reach[i][k] && reach[k][j] {
					reach[i][j] = true
				}
			}
		}
	}
	for i := 0; i < n; i++ {
		if reach[i][i] {
			return true
		}
	}
	return false
}

// ---------------------------------------------------------------------------------------

var c06Opts = synGenOpts{MaxNT: 4, MaxT: 4, MaxAlts: 3, MaxBody: 3, PEmpty: 0.15, PLit: 0.3, Reduced: true, Actions: true, POptRun: 0.3, PSplit: 0.15}

func checkC06(c *Ctx) {
	c.Level = "model_checking"
	c.Set("rule", "(1) MC_LRParse: for curated, exhaustive-tiny and random small reduced grammars and ALL token strings up to the bound, a failing parse names the first token that makes the input no prefix of a sentence (LR-independent prefix oracle), no action ran with that token as look-ahead, and the expected set is exactly the set of viable continuations; (2) LRProduct shows the real tables are the canonical ones; (3) real failing Parse runs are validated against the driver model: the error carries the very token object (identity, type), the exact expected set, and no action call follows the Scan that delivered it. (4) ErrMsg.tla: the text rendered from an error value (Error(), String(), Pos.String()) shows every expected terminal once and in order, the position and the lexeme; the table of texts TLC computes is replayed on the generated errors and token packages. distinct_nontrivial counts distinct (grammar, non-sentence) runs validated")
	c.Assume("domain: conflict-free grammars without error alternatives whose nonterminals are all productive (the generator removes unproductive ones)")
	rng := rand.New(rand.NewSource(c.Seed))
	o := c06Opts
	mcg := tinySynGrammars(rng, c.pick(20, 100), o)
	var red []*SynGrammar
	for _, g := range append(curatedSyn(), mcg...) {
		pr := g.productive()
		all := true
		for _, p := range pr {
			all = all && p
		}
		if all {
			red = append(red, g)
		}
	}
	if c.Quick() && len(red) > 60 {
		red = red[:60]
	}
	c.runMCLRParse(red, c.pick(4, 5), 0, true, []string{"FirstOffendingToken", "AcceptsExactlyTheLanguage"}, false)

	total := c.pick(120, 600)
	bs := c.pick(120, 150)
	for done := 0; done < total; done += bs {
		var gs []*SynGrammar
		if done == 0 {
			gs = append(gs, curatedSyn()...)
		}
		for i := 0; i < min(bs, total-done); i++ {
			gs = append(gs, genSynGrammar(rng, o))
		}
		b := c.buildSynBatch(fmt.Sprintf("c06_%d", done), gs, [][]string{nil})
		var cases []*SynCase
		for _, cs := range b.built() {
			if cs.Reported != -1 || cs.pairingProblem() != "" {
				continue
			}
			all := true
			for _, p := range cs.G.productive() {
				all = all && p
			}
			if all {
				cases = append(cases, cs)
			}
		}
		c.Add("evaluations", int64(len(cases)))
		if len(cases) == 0 {
			continue
		}
		c.lrProduct(cases, []string{"LiveAgree", "ActionAgree", "ProdTableAgree"}, "C06")
		var hs []*synHistory
		for i, cs := range cases {
			for _, in := range synInputs(rng, cs.G, c.pick(3, 4), c.pick(30, 120), c.pick(8, 24), true) {
				hs = append(hs, &synHistory{Case: cs, CaseIx: i, Inputs: []synInput{{Toks: in}}})
				c.Distinct(cs.Sub + fmt.Sprint(in))
			}
		}
		c.synTraceRound(b, cases, hs, "C06", []bool{false, true})
		if done == 0 && len(cases) > 0 {
			cs := cases[len(cases)-1]
			c.Sample(map[string]any{"grammar": cs.Text, "run": describeSynEvents(hs[len(hs)-1])})
		}
	}
	// (4) what the user reads: the text of the error shows what the value carries
	c.errMsgLeg()
}

var c03Opts = synGenOpts{MaxNT: 4, MaxT: 4, MaxAlts: 3, MaxBody: 3, PEmpty: 0.2, PLit: 0.3, Actions: true, POptRun: 0.3, PSplit: 0.15}

func checkC03(c *Ctx) {
	c.Level = "model_checking"
	c.Set("rule", "(1) MC_LRParse: over canonical tables of small grammars and all inputs up to the bound, the reduction log is the post-order of the result tree, the yield is the input in order, every call has the arity of its alternative, and for EVERY choice of a failing call the parse stops there with the injected error and no further call; (2) generated grammars carry logging action expressions ($i, $Ti, $Context; some alternatives and empty alternatives without action): every action call of real runs (production, each argument by token-object identity / value identity, call number) is validated by TLC against the driver model over the real tables and over the canonical tables; for sentences every call index is made to fail in turn. distinct_nontrivial counts distinct (grammar, input, failing call) runs")
	c.Assume("actions stay within the documented vocabulary $i, $Ti, $Context")
	rng := rand.New(rand.NewSource(c.Seed))
	o := c03Opts
	allAct := o
	mcg := append(curatedSyn(), tinySynGrammars(rng, c.pick(15, 80), allAct)...)
	for _, g := range mcg[:len(curatedSyn())] {
		for i := range g.Prods {
			g.Prods[i].Action = "log"
		}
	}
	if c.Quick() && len(mcg) > 50 {
		mcg = mcg[:50]
	}
	c.runMCLRParse(mcg, c.pick(3, 4), c.pick(3, 5), false, []string{"BottomUpLeftToRight", "CallsWellFormed", "FailingActionStops"}, false)

	total := c.pick(120, 600)
	bs := c.pick(120, 150)
	for done := 0; done < total; done += bs {
		var gs []*SynGrammar
		if done == 0 {
			gs = append(gs, curatedActionSyn()...)
			for _, g := range curatedSyn() {
				for i := range g.Prods {
					if i%3 != 2 {
						g.Prods[i].Action = "log"
					}
				}
				gs = append(gs, g)
			}
		}
		if done == 0 {
			// a failing action must stop the parse also where error recovery is available
			for _, g := range curatedErrSyn() {
				for i := range g.Prods {
					g.Prods[i].Action = "log"
				}
				gs = append(gs, g)
			}
		}
		for i := 0; i < min(bs, total-done); i++ {
			oo := o
			oo.ErrorAlts = i%4 == 3
			gs = append(gs, genSynGrammar(rng, oo))
		}
		b := c.buildSynBatch(fmt.Sprintf("c03_%d", done), gs, [][]string{nil})
		// the action expressions of these grammars are valid Go within the $-vocabulary: generated
		// code that does not compile means some $i / $Ti / $Context was not rewritten as specified
		for _, cs := range b.Cases {
			if cs.Run.Code == 0 && !cs.Run.TimedOut && !cs.Built && c.firstFor(cs.Text) {
				o, _ := b.M.BuildPkgs("./" + cs.Sub + "/parser")
				c.Violation(Replay{Kind: "gocc-complete", What: "the action expressions of the grammar below ($i, $Ti, $Context only) were not rewritten into valid code: the generated parser does not compile\n" + indent(tail(o, 6)) + "\n" + indent(cs.Text),
					Data: map[string]any{"text": strings.ReplaceAll(cs.Text, "@@PKG@@", "scratch/g000"), "flags": []string{}, "zero": true, "written": nil}})
			}
		}
		var cases []*SynCase
		for _, cs := range b.built() {
			if cs.Reported != -1 || cs.pairingProblem() != "" {
				continue
			}
			cases = append(cases, cs)
		}
		c.Add("evaluations", int64(len(cases)))
		if len(cases) == 0 {
			continue
		}
		// first pass: plain runs, to learn how many calls each sentence makes
		var hs []*synHistory
		for i, cs := range cases {
			for _, in := range synInputs(rng, cs.G, 3, c.pick(10, 40), c.pick(8, 30), cs.G.errTerm() >= 0) {
				hs = append(hs, &synHistory{Case: cs, CaseIx: i, Inputs: []synInput{{Toks: in}}})
			}
		}
		c.recordSynTraces(b, hs)
		var hs2 []*synHistory
		for _, h := range hs {
			ncalls := 0
			for _, e := range h.Events[0] {
				if e["ev"] == "call" {
					ncalls++
				}
			}
			c.Distinct(h.Case.Sub + fmt.Sprint(h.Inputs[0].Toks))
			lim := ncalls
			if c.Quick() && lim > 3 {
				lim = 3
			}
			if lim > 12 {
				lim = 12
			}
			for k := 1; k <= lim; k++ {
				fa := k
				if c.Quick() && ncalls > 3 {
					fa = 1 + rng.Intn(ncalls)
				}
				hs2 = append(hs2, &synHistory{Case: h.Case, CaseIx: h.CaseIx, Inputs: []synInput{{Toks: h.Inputs[0].Toks, FailAt: fa}}})
				c.Distinct(h.Case.Sub + fmt.Sprint(h.Inputs[0].Toks, fa))
			}
		}
		all := append(hs, hs2...)
		c.synTraceRound(b, cases, all, "C03", []bool{false, true})
		if done == 0 && len(cases) > 0 && len(hs2) > 0 {
			c.Sample(map[string]any{"grammar": hs2[len(hs2)-1].Case.Text, "run_with_failing_call": describeSynEvents(hs2[len(hs2)-1])})
		}
	}
}

var c07Opts = synGenOpts{MaxNT: 3, MaxT: 3, MaxAlts: 3, MaxBody: 3, PEmpty: 0.1, PLit: 0.3, ErrorAlts: true, Actions: true, PSplit: 0.15}

func checkC07(c *Ctx) {
	c.Level = "model_checking"
	c.Set("rule", "(1) MC_LRParse over canonical tables of small grammars with error alternatives and ALL inputs up to the bound: recovery never gets stuck (deadlock-free), terminates, delivers tokens to actions at most once and in order, and is inert on inputs that are sentences of the grammar without its error alternatives; (2) LRProduct on the real tables additionally requires the recovery flags to mark exactly the states that can shift the error symbol; (3) real Parse runs on valid, singly and multiply erroneous inputs (a Go panic is an event no model action matches) are validated against the driver model over the real and the canonical tables: stack discarding, error attribute (offending token identity, discarded attributes, expected set), skipping, resumption. distinct_nontrivial counts distinct (grammar, input) runs in which a recovery or an error return happened")
	c.Assume("domain: alternatives that BEGIN with the error symbol (the keyword used elsewhere in a body is known finding F8); conflict-free grammars")
	rng := rand.New(rand.NewSource(c.Seed))
	o := c07Opts
	small := o
	small.MaxNT, small.MaxT, small.MaxBody = 2, 2, 3
	var mcg []*SynGrammar
	mcg = append(mcg, curatedErrSyn()...)
	for i := 0; i < c.pick(40, 200); i++ {
		mcg = append(mcg, genSynGrammar(rng, small))
	}
	c.runMCLRParse(mcg, c.pick(4, 5), 0, true, []string{"TokensOnceInOrder", "ResultInInputOrder", "RecoveryInertOnSentences", "StackBounded", "CallsWellFormed"}, true)

	total := c.pick(150, 800)
	bs := c.pick(150, 200)
	for done := 0; done < total; done += bs {
		var gs []*SynGrammar
		if done == 0 {
			for _, g := range curatedErrSyn() {
				for i := range g.Prods {
					g.Prods[i].Action = "log"
				}
				gs = append(gs, g)
			}
		}
		for i := 0; i < min(bs, total-done); i++ {
			gs = append(gs, genSynGrammar(rng, o))
		}
		// every third grammar is generated with compressed tables: the recovery flags travel
		// through their encoding too
		b := c.buildSynBatch(fmt.Sprintf("c07_%d", done), gs, [][]string{nil, {"-zip"}, nil})
		var cases []*SynCase
		for _, cs := range b.built() {
			if cs.Reported != -1 || cs.pairingProblem() != "" || cs.G.errTerm() < 0 {
				continue
			}
			cases = append(cases, cs)
		}
		c.Add("evaluations", int64(len(cases)))
		if len(cases) == 0 {
			continue
		}
		c.lrProduct(cases, []string{"LiveAgree", "ActionAgree", "ProdTableAgree", "RecoverAgree"}, "C07")
		var hs []*synHistory
		for i, cs := range cases {
			for _, in := range synInputs(rng, cs.G, c.pick(4, 5), c.pick(40, 160), c.pick(10, 30), true) {
				hs = append(hs, &synHistory{Case: cs, CaseIx: i, Inputs: []synInput{{Toks: in}}})
			}
		}
		c.synTraceRound(b, cases, hs, "C07", []bool{false, true})
		for _, h := range hs {
			if len(h.Events) > 0 {
				for _, e := range h.Events[0] {
					if e["ev"] == "ret" && e["ok"] != true {
						c.Distinct(h.Case.Sub + fmt.Sprint(h.Inputs[0].Toks))
					}
					if a, ok := e["args"].([]any); ok {
						for _, x := range a {
							if m, ok := x.(map[string]any); ok && m["k"] == "e" {
								c.Distinct(h.Case.Sub + fmt.Sprint(h.Inputs[0].Toks))
							}
						}
					}
				}
			}
		}
		if done == 0 && len(hs) > 0 {
			c.Sample(map[string]any{"grammar": cases[0].Text, "run": describeSynEvents(hs[3%len(hs)])})
		}
	}
}
