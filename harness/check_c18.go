package main

import (
	"bytes"
	"encoding/json"
	"fmt"
	"path/filepath"
	"regexp"
	"strconv"
	"time"
)

func init() {
	register("C18", checkC18)
	replayers["ranges"] = replayRanges
}

var reRng = regexp.MustCompile(`(?m)^<<"RNG", (".*")>>$`)

func checkC18(c *Ctx) {
	c.Level = "model_checking"
	maxRune, maxAdds := 6, 3
	if !c.Quick() {
		maxRune, maxAdds = 9, 4
	}
	c.Set("rule", fmt.Sprintf("Ranges.tla transcribes AddRange case by case; TLC explores EVERY sequence of up to %d closed intervals over the universe 0..%d (single runes, adjacent, nested, overlapping, duplicate) and checks sorted/disjoint/non-empty, exact union, refinement and coarsest-partition after every insertion; the model's outcome table (set of added intervals -> classes) is replayed on the real DisjunctRangeSet in every insertion order (in-package test through go test -overlay), and random sequences over the whole rune range are compared with an end-point construction. distinct_nontrivial counts distinct interval sets of the table with >= 2 intervals", maxAdds, maxRune))
	cfg := fmt.Sprintf("SPECIFICATION Spec\nCONSTANTS\n  MaxRune = %d\n  MaxAdds = %d\nINVARIANT SortedDisjointNonEmpty\nINVARIANT ExactUnion\nINVARIANT Refines\nINVARIANT Coarsest\nINVARIANT LoopSane\nINVARIANT DumpIdle\nCHECK_DEADLOCK FALSE\n", maxRune, maxAdds)
	r := c.RunTLC(TLCOpts{Module: "Ranges", Cfg: cfg, Coverage: true, Timeout: 40 * time.Minute})
	if !r.OK {
		infra("Ranges.tla: the transcription violates the property (%s %s) - either AddRange is wrong or the transcription is; needs attention\n%s", r.ErrKind, r.InvViolated, tail(filterTLC(r.Out), 40))
	}
	c.Add("states", r.Distinct)
	c.Add("transitions", r.Generated)
	if z := coverageZero(r.Out, []string{"Case1", "Case2", "Case3", "Case4", "Case5", "Case6", "Case7", "Case8", "Case9", "Case10", "Case11", "Finish"}); len(z) > 0 {
		infra("Ranges.tla: cases never taken: %v", z)
	}
	c.Set("all_11_cases_taken", true)
	// outcome table
	seen := map[string]bool{}
	var table bytes.Buffer
	n := 0
	for _, m := range reRng.FindAllStringSubmatch(r.Out, -1) {
		s, err := strconv.Unquote(m[1])
		if err != nil || seen[s] {
			continue
		}
		seen[s] = true
		table.WriteString(s)
		table.WriteByte('\n')
		n++
		var e struct {
			Adds [][2]int `json:"adds"`
		}
		if json.Unmarshal([]byte(s), &e) == nil && len(e.Adds) >= 2 {
			c.Distinct(s)
		}
		if n <= 2 {
			c.Sample(json.RawMessage(s))
		}
	}
	if n < 100 {
		infra("Ranges outcome table has only %d rows", n)
	}
	tpath := filepath.Join(c.Scratch, "ranges_table.ndjson")
	mustWrite(tpath, table.Bytes())
	res := c.overlayTest("internal/lexer/items", map[string]string{"items_ranges_verif_test.go": "zz_ranges_verif_test.go"}, "TestVerifRanges",
		[]string{"VERIF_RANGES_TABLE=" + tpath, fmt.Sprintf("VERIF_RANGES_RANDOM=%d", c.pick(100000, 30000000)), fmt.Sprintf("VERIF_SEED=%d", c.Seed)}, 30*time.Minute)
	for _, st := range linesWith(res.Out, "VERIF-STATS") {
		var entries, runs, random, mism int
		fmt.Sscanf(st, "entries=%d runs=%d random=%d mismatches=%d", &entries, &runs, &random, &mism)
		c.Add("evaluations", int64(runs+random))
		c.Add("traces_validated_against_impl", int64(runs))
		c.Set("table_entries_replayed", entries)
		c.Set("random_sequences", random)
	}
	for _, mm := range linesWith(res.Out, "VERIF-MISMATCH") {
		var e struct {
			Kind string   `json:"kind"`
			Seq  [][2]int `json:"seq"`
			Got  [][2]int `json:"got"`
			Want [][2]int `json:"want"`
		}
		if json.Unmarshal([]byte(mm), &e) != nil {
			continue
		}
		c.Violation(Replay{Kind: "ranges", What: fmt.Sprintf("DisjunctRangeSet after adding %v has classes %v, the specification says %v (%s)", e.Seq, e.Got, e.Want, e.Kind), Data: map[string]any{"seq": e.Seq}})
	}
}

func replayRanges(c *Ctx, r *Replay) (bool, string) {
	seq := mustJSON(r.Data["seq"])
	res := c.overlayTest("internal/lexer/items", map[string]string{"items_ranges_verif_test.go": "zz_ranges_verif_test.go"}, "TestVerifRanges", []string{"VERIF_RANGES_SEQ=" + string(seq)}, 10*time.Minute)
	if mm := linesWith(res.Out, "VERIF-MISMATCH"); len(mm) > 0 {
		return true, mm[0]
	}
	return false, "classes equal the coarsest partition"
}
