package main

import (
	"encoding/json"
	"fmt"
	"math/rand"
	"time"
)

// ---------------------------------------------------------------------------------------
// replay of a parser finding: regenerate, run the history on the real parser, validate the
// trace against LRParse over the canonical LR(1) tables (end-to-end).

func synReplayData(cs *SynCase, h []synInput) map[string]any {
	var ins []map[string]any
	for _, in := range h {
		t := in.Toks
		if t == nil {
			t = []int{}
		}
		ins = append(ins, map[string]any{"toks": t, "failat": in.FailAt, "text": cs.G.inputString(in.Toks)})
	}
	return map[string]any{
		"grammar": cs.Text,
		"abs":     cs.Abs,
		"nts":     cs.G.NTs,
		"terms":   cs.G.Terms,
		"islit":   cs.G.IsLit,
		"flags":   cs.Flags,
		"history": ins,
	}
}

func init() {
	replayers["syn"] = replaySyn
}

type synReplay struct {
	Grammar string   `json:"grammar"`
	Abs     synAbs   `json:"abs"`
	NTs     []string `json:"nts"`
	Terms   []string `json:"terms"`
	IsLit   []bool   `json:"islit"`
	Flags   []string `json:"flags"`
	History []struct {
		Toks   []int `json:"toks"`
		FailAt int   `json:"failat"`
	} `json:"history"`
}

func replaySyn(c *Ctx, r *Replay) (bool, string) {
	var d synReplay
	b, _ := json.Marshal(r.Data)
	if err := json.Unmarshal(b, &d); err != nil {
		infra("replay data: %v", err)
	}
	c.mu.Lock()
	c.tlcSeq++
	tag := fmt.Sprintf("sreplay%03d", c.tlcSeq)
	c.mu.Unlock()
	g := &SynGrammar{NTs: d.NTs, Terms: d.Terms, IsLit: d.IsLit}
	batch := c.buildSynBatchText(tag, []*SynGrammar{g}, []string{d.Grammar}, []synAbs{d.Abs}, [][]string{d.Flags})
	cs := batch.Cases[0]
	if !cs.Built {
		return false, fmt.Sprintf("gocc does not generate a parser for the grammar any more (exit %d)", cs.Run.Code)
	}
	if p := cs.pairingProblem(); p != "" {
		return true, p
	}
	h := &synHistory{Case: cs, CaseIx: 0}
	for _, in := range d.History {
		h.Inputs = append(h.Inputs, synInput{Toks: in.Toks, FailAt: in.FailAt})
	}
	c.recordSynTraces(batch, []*synHistory{h})
	rej := c.validateSynTraces([]*SynCase{cs}, []*synHistory{h}, true, false)
	if len(rej) > 0 {
		return true, "the real parser's behaviour on this history is not a behaviour of the specified LR(1) machine: " + describeSynEvents(h)
	}
	return false, "real behaviour equals the specified machine's"
}

func describeSynEvents(h *synHistory) string {
	s := ""
	for i, es := range h.Events {
		s += fmt.Sprintf(" Parse#%d %s:", i+1, h.Case.G.inputString(h.Inputs[i].Toks))
		for k, e := range es {
			if k == 40 && len(es) > 60 {
				s += fmt.Sprintf(" ... (%d more events)", len(es)-40)
			}
			if k >= 40 && k < len(es)-3 && len(es) > 60 {
				continue
			}
			switch e["ev"] {
			case "call":
				s += fmt.Sprintf(" call(p%v)", e["p"])
			case "ret":
				if e["ok"] == true {
					s += " -> ok"
				} else if m, ok := e["err"].(map[string]any); ok {
					s += fmt.Sprintf(" -> error(token #%v, expected %v, injected %v)", m["i"], m["exp"], m["injected"])
				}
			case "panic":
				s += fmt.Sprintf(" PANIC(%v)", e["msg"])
			case "hang":
				s += " DID NOT RETURN (ended by the watchdog after 20 s)"
			}
		}
	}
	return s
}

// buildSynBatchText is buildSynBatch with explicit texts/abstractions (used by replays).
func (c *Ctx) buildSynBatchText(tag string, gs []*SynGrammar, texts []string, abss []synAbs, flags [][]string) *SynBatch {
	// temporarily wrap: render() is bypassed by pre-rendered text
	b := c.buildSynBatchWith(tag, gs, flags, func(i int) (string, synAbs) { return texts[i], abss[i] })
	return b
}

// ---------------------------------------------------------------------------------------
// LR product

// lrProduct explores the product of the real tables with the canonical LR(1) automaton.
// A disagreement is reproduced through the public API before it is reported.
func (c *Ctx) lrProduct(cases []*SynCase, invariants []string, what string) {
	live := append([]*SynCase{}, cases...)
	for round := 0; round < 6 && len(live) > 0; round++ {
		var entries []any
		for _, cs := range live {
			entries = append(entries, cs.productEntry())
		}
		cfg := "INIT Init\nNEXT Next\nVIEW View\nCHECK_DEADLOCK FALSE\n"
		for _, inv := range invariants {
			cfg += "INVARIANT " + inv + "\n"
		}
		r := c.RunTLC(TLCOpts{Module: "LRProduct", Cfg: cfg, Files: map[string][]byte{"batch.json": mustJSON(entries)}, Timeout: 40 * time.Minute})
		c.Add("states", r.Distinct)
		c.Add("transitions", r.Generated)
		if r.OK {
			c.Add("products_explored", int64(len(live)))
			return
		}
		if r.ErrKind != "invariant" || len(r.Trace) == 0 {
			infra("LRProduct: TLC failed (%s) dir=%s\n%s", r.ErrKind, r.Dir, tail(filterTLC(r.Out), 40))
		}
		last := r.Trace[len(r.Trace)-1]
		gi := int(last["g"].(float64)) - 1
		cs := live[gi]
		var path []int
		for _, a := range last["path"].([]any) {
			path = append(path, int(a.(float64)))
		}
		c.confirmLRDisagreement(cs, path, r.InvViolated, what)
		live = append(live[:gi:gi], live[gi+1:]...)
	}
}

// minimal terminal expansion of every nonterminal (nil: unproductive)
func (g *SynGrammar) minExpansions() [][]int {
	exp := make([][]int, len(g.NTs))
	have := make([]bool, len(g.NTs))
	for again := true; again; {
		again = false
		for _, p := range g.Prods {
			var w []int
			ok := true
			for _, s := range p.Body {
				if s.NT {
					if !have[s.Idx] {
						ok = false
						break
					}
					w = append(w, exp[s.Idx]...)
				} else {
					w = append(w, g.termID(s.Idx))
				}
			}
			if ok && (!have[p.Head] || len(w) < len(exp[p.Head])) {
				exp[p.Head] = w
				have[p.Head] = true
				again = true
			}
		}
	}
	for i := range exp {
		if !have[i] {
			exp[i] = nil
		} else if exp[i] == nil {
			exp[i] = []int{}
		}
	}
	return exp
}

func (c *Ctx) confirmLRDisagreement(cs *SynCase, path []int, inv, what string) {
	if !c.firstFor(cs.Text) {
		return
	}
	names := ""
	for _, s := range path {
		names += " " + cs.G.symName(s)
	}
	desc := fmt.Sprintf("%s: real tables of the grammar below disagree with its canonical LR(1) automaton (%s) after the symbols [%s ]", what, inv, names)
	// table-level facts (production table, recovery flags, stray entries) have no single input
	// that must show them; they are real-code facts read from the compiled tables, reported as such
	exp := cs.G.minExpansions()
	var prefix []int
	expandable := true
	for _, s := range path {
		if s > len(cs.G.Terms)+1 {
			j := s - len(cs.G.Terms) - 3
			if j < 0 || exp[j] == nil {
				expandable = false
				break
			}
			prefix = append(prefix, exp[j]...)
		} else {
			prefix = append(prefix, s)
		}
	}
	var hs []*synHistory
	if expandable {
		// input alphabet: the grammar's terminals without the error symbol (no scanner delivers it)
		var alpha []int
		for i := range cs.G.Terms {
			if i != cs.G.errTerm() {
				alpha = append(alpha, cs.G.termID(i))
			}
		}
		hasErr := false
		for _, t := range prefix {
			if cs.G.errTerm() >= 0 && t == cs.G.termID(cs.G.errTerm()) {
				hasErr = true
			}
		}
		var cands [][]int
		if !hasErr {
			cands = append(cands, prefix)
			for _, t := range alpha {
				cands = append(cands, append(append([]int{}, prefix...), t))
			}
		}
		rng := rand.New(rand.NewSource(c.Seed))
		for i := 0; i < 400 && len(alpha) > 0; i++ {
			var p []int
			if !hasErr && i%2 == 0 {
				p = append(p, prefix...)
			}
			for k := 0; k < 1+i%7; k++ {
				p = append(p, alpha[rng.Intn(len(alpha))])
			}
			cands = append(cands, p)
		}
		for i := 0; i < 30; i++ {
			if s, ok := cs.G.randomSentence(rng, 12); ok {
				cands = append(cands, s)
			}
		}
		for _, in := range cands {
			hs = append(hs, &synHistory{Case: cs, CaseIx: 0, Inputs: []synInput{{Toks: in}}})
		}
		b := c.rebuildSingle(cs)
		if b != nil {
			for _, h := range hs {
				h.Case = b.Cases[0]
			}
			c.recordSynTraces(b, hs)
			rej := c.validateSynTraces([]*SynCase{b.Cases[0]}, hs, true, false)
			if len(rej) > 0 {
				h := rej[0]
				c.Violation(Replay{Kind: "syn", What: desc + "; input " + cs.G.inputString(h.Inputs[0].Toks) + ":" + describeSynEvents(h) + "\n" + indent(cs.Text), Data: synReplayData(cs, h.Inputs)})
				return
			}
		}
	}
	// not reproducible through Parse: report the table fact itself (read from compiled code)
	c.Violation(Replay{Kind: "syntab", What: desc + " (table-level disagreement; no short input exposes it through Parse)\n" + indent(cs.Text),
		Data: map[string]any{"grammar": cs.Text, "abs": cs.Abs, "nts": cs.G.NTs, "terms": cs.G.Terms, "islit": cs.G.IsLit, "flags": cs.Flags, "invariant": inv}})
}

// rebuildSingle regenerates one grammar in a fresh module (stand-alone confirmation).
func (c *Ctx) rebuildSingle(cs *SynCase) *SynBatch {
	c.mu.Lock()
	c.tlcSeq++
	tag := fmt.Sprintf("confirm%03d", c.tlcSeq)
	c.mu.Unlock()
	b := c.buildSynBatchText(tag, []*SynGrammar{cs.G}, []string{cs.Text}, []synAbs{cs.Abs}, [][]string{cs.Flags})
	if !b.Cases[0].Built {
		return nil
	}
	return b
}

func init() {
	replayers["syntab"] = func(c *Ctx, r *Replay) (bool, string) {
		var d synReplay
		b, _ := json.Marshal(r.Data)
		json.Unmarshal(b, &d)
		inv, _ := r.Data["invariant"].(string)
		c.mu.Lock()
		c.tlcSeq++
		tag := fmt.Sprintf("treplay%03d", c.tlcSeq)
		c.mu.Unlock()
		g := &SynGrammar{NTs: d.NTs, Terms: d.Terms, IsLit: d.IsLit}
		batch := c.buildSynBatchText(tag, []*SynGrammar{g}, []string{d.Grammar}, []synAbs{d.Abs}, [][]string{d.Flags})
		cs := batch.Cases[0]
		if !cs.Built {
			return false, "gocc does not generate a parser for the grammar any more"
		}
		if p := cs.pairingProblem(); p != "" {
			return true, p
		}
		cfg := "INIT Init\nNEXT Next\nVIEW View\nCHECK_DEADLOCK FALSE\nINVARIANT " + inv + "\n"
		res := c.RunTLC(TLCOpts{Module: "LRProduct", Cfg: cfg, Files: map[string][]byte{"batch.json": mustJSON([]any{cs.productEntry()})}})
		if res.OK {
			return false, "tables agree with the canonical automaton"
		}
		if res.ErrKind == "invariant" {
			return true, "tables still disagree with the canonical LR(1) automaton: " + res.InvViolated
		}
		infra("LRProduct replay failed: %s", res.ErrKind)
		return false, ""
	}
}
