package main

import (
	"fmt"
	"os"
	"path/filepath"
	"strings"
	"time"
)

// Module is a scratch Go module ("module scratch") into which gocc generates packages.
type Module struct {
	c   *Ctx
	Dir string
}

func (c *Ctx) NewModule(tag string) *Module {
	m := &Module{c: c, Dir: filepath.Join(c.Scratch, tag)}
	mustWrite(filepath.Join(m.Dir, "go.mod"), []byte("module scratch\n\ngo 1.21\n"))
	return m
}

type GoccRun struct {
	Sub      string
	Code     int
	Out      string
	TimedOut bool
	Dur      time.Duration
}

// Gocc writes the grammar to <sub>/g<ext> and runs the freshly built gocc with -o <sub>.
func (m *Module) Gocc(sub, text string, flags ...string) GoccRun {
	return m.GoccExt(sub, "g.bnf", []byte(text), 60*time.Second, flags...)
}

func (m *Module) GoccExt(sub, fname string, text []byte, timeout time.Duration, flags ...string) GoccRun {
	mustWrite(filepath.Join(m.Dir, sub, fname), text)
	args := append([]string{}, flags...)
	args = append(args, "-o", sub, filepath.Join(sub, fname))
	r := runCmd(cmdOpts{Dir: m.Dir, Timeout: timeout, Env: goEnv()}, m.c.Gocc, args...)
	return GoccRun{Sub: sub, Code: r.Code, Out: r.Out, TimedOut: r.TimedOut, Dur: r.Dur}
}

// Build compiles ./<pkg> of the scratch module into an executable.
func (m *Module) Build(pkg, out string, extra ...string) (string, bool) {
	args := append([]string{"build"}, extra...)
	args = append(args, "-o", out, "./"+pkg)
	r := runCmd(cmdOpts{Dir: m.Dir, Env: goEnv(), Timeout: 15 * time.Minute}, "go", args...)
	return r.Out, r.Code == 0
}

// Vet-free compile check of a set of packages (go build ./sub/...).
func (m *Module) BuildPkgs(pattern string) (string, bool) {
	r := runCmd(cmdOpts{Dir: m.Dir, Env: goEnv(), Timeout: 15 * time.Minute}, "go", "build", pattern)
	return r.Out, r.Code == 0
}

func exists(p string) bool {
	_, err := os.Stat(p)
	return err == nil
}

func readFileOr(p string) string {
	b, err := os.ReadFile(p)
	if err != nil {
		return ""
	}
	return string(b)
}

// goStringLit renders s as a Go interpreted string literal.
func goStringLit(s string) string { return fmt.Sprintf("%q", s) }

func indent(s string) string { return "    " + strings.ReplaceAll(s, "\n", "\n    ") }
