package main

import (
	"encoding/json"
	"fmt"
	"math/rand"
	"os"
	"path/filepath"
	"regexp"
	"strings"
	"time"
)

func init() {
	register("C15", checkC15)
	replayers["frontend-parse"] = replayFEParse
}

// readEbnfSyntax is a small independent reader of the syntax part of spec/gocc2.ebnf:
// productions  Head : alt | alt ;  with optional << action >> after each alternative,
// // and /* */ comments. Symbols: identifiers and quoted strings.
func readEbnfSyntax(src string) (*SynGrammar, error) {
	// strip comments
	src = regexp.MustCompile(`(?s)/\*.*?\*/`).ReplaceAllString(src, " ")
	src = regexp.MustCompile(`(?m)//.*$`).ReplaceAllString(src, " ")
	// tokenise
	type tok struct{ kind, text string }
	var toks []tok
	for i := 0; i < len(src); {
		ch := src[i]
		switch {
		case ch == ' ' || ch == '\t' || ch == '\n' || ch == '\r':
			i++
		case strings.HasPrefix(src[i:], "<<"):
			j := strings.Index(src[i:], ">>")
			if j < 0 {
				return nil, fmt.Errorf("unterminated action")
			}
			toks = append(toks, tok{"sdt", src[i : i+j+2]})
			i += j + 2
		case ch == '"' || ch == '`':
			j := strings.IndexByte(src[i+1:], ch)
			if j < 0 {
				return nil, fmt.Errorf("unterminated string")
			}
			toks = append(toks, tok{"lit", src[i+1 : i+1+j]})
			i += j + 2
		case ch == ':' || ch == ';' || ch == '|':
			toks = append(toks, tok{"punct", string(ch)})
			i++
		case ch == '_' || ch >= 'a' && ch <= 'z' || ch >= 'A' && ch <= 'Z':
			j := i
			for j < len(src) && (src[j] == '_' || src[j] >= 'a' && src[j] <= 'z' || src[j] >= 'A' && src[j] <= 'Z' || src[j] >= '0' && src[j] <= '9') {
				j++
			}
			toks = append(toks, tok{"id", src[i:j]})
			i = j
		default:
			return nil, fmt.Errorf("unexpected character %q at offset %d", ch, i)
		}
	}
	g := &SynGrammar{}
	ntIdx := map[string]int{}
	tIdx := map[string]int{}
	type rawProd struct {
		head string
		body []tok
	}
	var raw []rawProd
	i := 0
	if i < len(toks) && toks[i].kind == "sdt" { // file header
		i++
	}
	for i < len(toks) {
		if toks[i].kind != "id" || i+1 >= len(toks) || toks[i+1].text != ":" {
			return nil, fmt.Errorf("production expected at token %d (%q)", i, toks[i].text)
		}
		head := toks[i].text
		if _, ok := ntIdx[head]; !ok {
			ntIdx[head] = len(g.NTs)
			g.NTs = append(g.NTs, head)
		}
		i += 2
		var body []tok
		for ; i < len(toks); i++ {
			t := toks[i]
			if t.kind == "punct" && (t.text == "|" || t.text == ";") {
				raw = append(raw, rawProd{head, body})
				body = nil
				if t.text == ";" {
					i++
					break
				}
				continue
			}
			if t.kind == "sdt" {
				continue
			}
			body = append(body, t)
		}
	}
	for _, rp := range raw {
		p := SynProd{Head: ntIdx[rp.head], Action: "log"}
		for _, t := range rp.body {
			if t.kind == "id" {
				if k, ok := ntIdx[t.text]; ok {
					p.Body = append(p.Body, N(k))
					continue
				}
				// a nonterminal defined later?
				isNT := false
				for _, r2 := range raw {
					if r2.head == t.text {
						isNT = true
					}
				}
				if isNT {
					ntIdx[t.text] = len(g.NTs)
					g.NTs = append(g.NTs, t.text)
					p.Body = append(p.Body, N(ntIdx[t.text]))
					continue
				}
			}
			key := t.kind + ":" + t.text
			if _, ok := tIdx[key]; !ok {
				tIdx[key] = len(g.Terms)
				g.Terms = append(g.Terms, t.text)
				g.IsLit = append(g.IsLit, t.kind == "lit")
			}
			p.Body = append(p.Body, T(tIdx[key]))
		}
		g.Prods = append(g.Prods, p)
	}
	return g, nil
}

type feDump struct {
	Tokens []string         `json:"tokens"`
	Act    [][]realEntry    `json:"act"`
	Rec    []bool           `json:"rec"`
	Goto   []map[string]int `json:"goto"`
	Prods  []struct {
		Str  string `json:"str"`
		Head string `json:"head"`
		NSym int    `json:"nsym"`
	} `json:"prods"`
}

const feOverlay = "feparser_verif_test.go"

// feCase builds, from the shipped tables and the documented grammar, the record LRProduct /
// LRTrace read. Productions are matched by content (head and body), never by number.
func (c *Ctx) feCase() (*SynCase, *feDump, []int, string) {
	b, err := os.ReadFile(filepath.Join(repoRoot, "spec", "gocc2.ebnf"))
	if err != nil {
		infra("read spec/gocc2.ebnf: %v", err)
	}
	g, err := readEbnfSyntax(string(b))
	if err != nil {
		return nil, nil, nil, "spec/gocc2.ebnf cannot be read as a grammar: " + err.Error()
	}
	// "error" and "empty" are ordinary literal terminals here
	out := filepath.Join(c.Scratch, "fedump.json")
	c.overlayTest("internal/frontend/parser", map[string]string{feOverlay: "zz_feparser_verif_test.go"}, "TestVerifFEDump", []string{"VERIF_FE_OUT=" + out}, 10*time.Minute)
	db, err := os.ReadFile(out)
	if err != nil {
		infra("front-end dump missing: %v", err)
	}
	var d feDump
	if err := json.Unmarshal(db, &d); err != nil {
		infra("front-end dump: %v", err)
	}
	cs := &SynCase{Sub: "frontend", G: g, Text: "spec/gocc2.ebnf", Abs: g.abstract(), Reported: -1, Built: true}
	cs.Abs.Err = 0
	// columns: by token name
	cs.Col = []int{0}
	for _, t := range g.Terms {
		col := -1
		for n, name := range d.Tokens {
			if name == t {
				col = n
			}
		}
		if col < 0 {
			return nil, nil, nil, fmt.Sprintf("terminal %q of spec/gocc2.ebnf is unknown to the front end's token map %v", t, d.Tokens)
		}
		cs.Col = append(cs.Col, col)
	}
	cs.TokId = d.Tokens
	// match productions by content
	abs := cs.Abs
	shippedOf := make([]int, len(abs.Prods)) // abstract production (0-based) -> shipped index
	used := map[int]bool{}
	for pi, ap := range abs.Prods {
		head := "S!"
		if pi > 0 {
			head = g.NTs[ap.H-abs.NT-2]
		}
		var body []string
		for _, s := range ap.B {
			body = append(body, g.symName(s))
		}
		if pi == 0 {
			body = []string{g.NTs[0]}
		}
		found := -1
		for si, sp := range d.Prods {
			if used[si] || sp.Head != head && !(pi == 0 && strings.HasPrefix(sp.Head, "S")) {
				continue
			}
			if pi == 0 && si != 0 {
				continue
			}
			// shipped text: "Head : sym sym ... << action >> ;"
			txt := sp.Str
			if k := strings.Index(txt, "<<"); k >= 0 {
				txt = txt[:k]
			} else {
				txt = strings.TrimSuffix(strings.TrimSpace(txt), ";")
			}
			parts := strings.SplitN(txt, " : ", 2)
			if len(parts) != 2 {
				continue
			}
			syms := strings.Fields(parts[1])
			if len(syms) == 1 && syms[0] == "empty" && len(body) == 1 && body[0] == "empty" {
				// the alternative consisting of the literal terminal "empty"
			}
			if strings.Join(syms, " ") == strings.Join(body, " ") && sp.NSym == len(body) {
				found = si
				break
			}
		}
		if found < 0 {
			return nil, nil, nil, fmt.Sprintf("production %s : %s of spec/gocc2.ebnf has no counterpart (same head and body) in the shipped production table", head, strings.Join(body, " "))
		}
		used[found] = true
		shippedOf[pi] = found
	}
	if len(d.Prods) != len(abs.Prods) {
		return nil, nil, nil, fmt.Sprintf("shipped production table has %d productions, spec/gocc2.ebnf %d", len(d.Prods), len(abs.Prods))
	}
	absOf := make([]int, len(d.Prods))
	for a, s := range shippedOf {
		absOf[s] = a
	}
	// tables in abstract numbering
	t := &realTables{NStates: len(d.Act), NCols: len(d.Tokens)}
	for _, row := range d.Act {
		r := make([]realEntry, len(d.Tokens))
		for cidx := range r {
			e := row[cidx]
			if e.K == "reduce" {
				e.N = absOf[e.N]
			}
			r[cidx] = e
		}
		if len(row) > len(d.Tokens) {
			return nil, nil, nil, "the shipped action table has an entry for a token type outside the token map"
		}
		t.Act = append(t.Act, r)
	}
	t.Rec = d.Rec
	cs.NTCol = make([]int, len(g.NTs)+1)
	for j := range cs.NTCol {
		cs.NTCol[j] = j
	}
	for _, gr := range d.Goto {
		row := make([]int, len(g.NTs)+1)
		for j := range row {
			row[j] = -1
		}
		for name, st := range gr {
			found := false
			for j, nt := range g.NTs {
				if nt == name {
					row[j+1] = st
					found = true
				}
			}
			if !found && !strings.HasPrefix(name, "S") {
				return nil, nil, nil, fmt.Sprintf("shipped goto table mentions nonterminal %q, which spec/gocc2.ebnf does not define", name)
			}
		}
		t.Goto = append(t.Goto, row)
	}
	for a := range abs.Prods {
		sp := d.Prods[shippedOf[a]]
		nt := 0
		if a > 0 {
			nt = abs.Prods[a].H - abs.NT - 1
		}
		t.PTab = append(t.PTab, realProd{Id: sp.Head, NTType: nt, Index: a, NSym: sp.NSym, Str: sp.Str})
	}
	cs.Tables = t
	return cs, &d, shippedOf, ""
}

func checkC15(c *Ctx) {
	c.Level = "model_checking"
	c.Set("rule", "the syntax part of spec/gocc2.ebnf is read by an independent reader (with \"error\" and \"empty\" as ordinary literal terminals); the shipped ActionTable/GotoTable/ProductionsTable are dumped in-package (go test -overlay); productions are matched by head and body; TLC explores the whole reachable product of the shipped tables with the canonical LR(1) automaton of the documented grammar (every token sequence); the shipped parser is then driven through its exported Parse with logging reduce functions on all token sequences up to length k, on mutations of the token streams of every grammar file of the repository, and each trace is validated by TLC against the driver model over the canonical tables of the documented grammar. distinct_nontrivial counts distinct token sequences driven through the shipped parser")
	cs, d, shippedOf, problem := c.feCase()
	if problem != "" {
		c.Violation(Replay{Kind: "frontend-parse", What: "documented grammar and shipped parser tables have drifted apart: " + problem, Data: map[string]any{"inputs": [][]int{}}})
		return
	}
	c.Set("documented_productions", len(cs.Abs.Prods))
	c.Set("shipped_states", len(d.Act))
	c.lrProduct([]*SynCase{cs}, []string{"LiveAgree", "ActionAgree", "ProdTableAgree", "NoStrayEntries"}, "C15")

	// behaviours
	rng := rand.New(rand.NewSource(c.Seed))
	var inputs [][]int
	inputs = append(inputs, synInputs(rng, cs.G, c.pick(3, 4), c.pick(600, 40000), c.pick(150, 6000), false)...)
	// token streams of the repository's own grammars, and single-token mutations of them
	for _, ts := range c.repoGrammarTokenStreams(cs) {
		inputs = append(inputs, ts)
		for k := 0; k < c.pick(6, 150) && len(ts) > 0; k++ {
			m := append([]int{}, ts...)
			j := rng.Intn(len(m))
			switch rng.Intn(3) {
			case 0:
				m[j] = 2 + rng.Intn(len(cs.G.Terms))
			case 1:
				m = append(m[:j], m[j+1:]...)
			case 2:
				m = append(m[:j], append([]int{2 + rng.Intn(len(cs.G.Terms))}, m[j:]...)...)
			}
			inputs = append(inputs, m)
		}
	}
	c.Add("evaluations", int64(len(inputs)))
	hs := c.feRun(cs, shippedOf, inputs)
	for _, h := range hs {
		c.Distinct(fmt.Sprint(h.Inputs[0].Toks))
	}
	for _, mode := range []bool{true, false} {
		for _, h := range c.validateSynTraces([]*SynCase{cs}, hs, mode, false) {
			if c.firstFor("fe") {
				c.Violation(Replay{Kind: "frontend-parse", What: fmt.Sprintf("the shipped front-end parser does not behave like the LR(1) machine of spec/gocc2.ebnf (%s tables) on the token sequence %s:%s", map[bool]string{true: "canonical", false: "shipped"}[mode], cs.G.inputString(h.Inputs[0].Toks), describeSynEvents(h)),
					Data: map[string]any{"inputs": [][]int{h.Inputs[0].Toks}}})
			}
		}
	}
	if len(hs) > 0 {
		c.Sample(map[string]any{"token_sequence": cs.G.inputString(hs[len(hs)-1].Inputs[0].Toks), "run": describeSynEvents(hs[len(hs)-1])})
		c.Sample(map[string]any{"token_sequence": cs.G.inputString(hs[0].Inputs[0].Toks)})
	}
}

// feRun drives the shipped parser on abstract terminal sequences and converts the events.
func (c *Ctx) feRun(cs *SynCase, shippedOf []int, inputs [][]int) []*synHistory {
	absOf := make([]int, len(shippedOf))
	for a, s := range shippedOf {
		absOf[s] = a
	}
	var real [][]int
	for _, in := range inputs {
		r := []int{}
		for _, t := range in {
			r = append(r, cs.realType(t))
		}
		real = append(real, r)
	}
	inp := filepath.Join(c.Scratch, "fe_in.json")
	out := filepath.Join(c.Scratch, "fe_out.json")
	mustWrite(inp, mustJSON(real))
	c.overlayTest("internal/frontend/parser", map[string]string{feOverlay: "zz_feparser_verif_test.go"}, "TestVerifFEParse", []string{"VERIF_FE_IN=" + inp, "VERIF_FE_OUT=" + out}, 20*time.Minute)
	b, err := os.ReadFile(out)
	if err != nil {
		infra("front-end parse output missing")
	}
	var all [][]map[string]any
	if err := json.Unmarshal(b, &all); err != nil || len(all) != len(inputs) {
		infra("front-end parse output: %v", err)
	}
	var hs []*synHistory
	for i, evs := range all {
		for _, e := range evs {
			if e["ev"] == "call" {
				e["p"] = absOf[int(e["p"].(float64))]
			}
			if e["ev"] == "ret" && e["ok"] != true {
				e["err"] = map[string]any{"k": "plain", "i": 0, "injected": false, "exp": []int{}, "toktype": 0, "syms": []any{}}
			}
		}
		hs = append(hs, &synHistory{Case: cs, CaseIx: 0, Inputs: []synInput{{Toks: inputs[i]}}, Events: [][]map[string]any{evs}})
	}
	return hs
}

// repoGrammarTokenStreams tokenises every .bnf file of the repository with a rough tokenizer
// (good enough to obtain realistic token-type sequences; C13 binds the real scanner).
func (c *Ctx) repoGrammarTokenStreams(cs *SynCase) [][]int {
	var files []string
	filepath.Walk(repoRoot, func(p string, info os.FileInfo, err error) error {
		if err == nil && !info.IsDir() && strings.HasSuffix(p, ".bnf") {
			files = append(files, p)
		}
		return nil
	})
	term := func(name string) int {
		for i, t := range cs.G.Terms {
			if t == name {
				return i + 2
			}
		}
		return -1
	}
	var out [][]int
	reTok := regexp.MustCompile("(?s)^(?:(\\s+|//[^\\n]*|/\\*.*?\\*/)|(<<.*?>>)|('(?:\\\\.|[^'\\\\])+')|(\"[^\"]*\"|`[^`]*`)|([A-Za-z_!][A-Za-z0-9_]*)|(.))")
	for _, f := range files {
		b, err := os.ReadFile(f)
		if err != nil {
			continue
		}
		src := string(b)
		var ts []int
		ok := true
		for len(src) > 0 && ok {
			m := reTok.FindStringSubmatch(src)
			if m == nil {
				ok = false
				break
			}
			src = src[len(m[0]):]
			var name string
			switch {
			case m[1] != "":
				continue
			case m[2] != "":
				name = "g_sdt_lit"
			case m[3] != "":
				name = "char_lit"
			case m[4] != "":
				name = "string_lit"
			case m[5] != "":
				id := m[5]
				switch {
				case id[0] == '_':
					name = "regDefId"
				case id[0] == '!':
					name = "ignoredTokId"
				case id[0] >= 'A' && id[0] <= 'Z':
					name = "prodId"
				default:
					name = "tokId"
				}
			default:
				name = m[6]
			}
			t := term(name)
			if t < 0 {
				ok = false
				break
			}
			ts = append(ts, t)
		}
		if ok && len(ts) > 0 && len(ts) < 4000 {
			out = append(out, ts)
		}
	}
	return out
}

func replayFEParse(c *Ctx, r *Replay) (bool, string) {
	cs, _, shippedOf, problem := c.feCase()
	if problem != "" {
		return true, problem
	}
	var inputs [][]int
	b, _ := json.Marshal(r.Data["inputs"])
	json.Unmarshal(b, &inputs)
	if len(inputs) == 0 {
		return false, "documented grammar and shipped tables match production by production"
	}
	hs := c.feRun(cs, shippedOf, inputs)
	if rej := c.validateSynTraces([]*SynCase{cs}, hs, true, false); len(rej) > 0 {
		return true, "the shipped parser's run is not a run of the LR(1) machine of spec/gocc2.ebnf:" + describeSynEvents(rej[0])
	}
	return false, "the shipped parser behaves like the LR(1) machine of the documented grammar"
}
