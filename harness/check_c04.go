package main

import (
	"encoding/json"
	"fmt"
	"math/rand"
	"os"
	"path/filepath"
	"time"
)

func init() {
	register("C04", checkC04)
	replayers["gocc-conflicts"] = replayGoccConflicts
}

type idealSumm struct {
	NStates     int  `json:"nstates"`
	NConfStates int  `json:"nconfstates"`
	NConf       int  `json:"nconf"`
	AccConf     bool `json:"accconf"`
}

// lrIdealEval evaluates the canonical LR(1) construction of LR1.tla with TLC.
func (c *Ctx) lrIdealEval(abss []synAbs) []idealSumm {
	r := c.RunTLC(TLCOpts{Module: "LRIdealEval", Cfg: "LexRefEval.cfg", Workers: 1, Timeout: 40 * time.Minute, Files: map[string][]byte{"grammars.json": mustJSON(abss)}})
	r.mustOK("LRIdealEval")
	b, err := os.ReadFile(filepath.Join(r.Dir, "ideal.json"))
	if err != nil {
		infra("LRIdealEval wrote no output: %v", err)
	}
	var out []idealSumm
	if err := json.Unmarshal(b, &out); err != nil || len(out) != len(abss) {
		infra("LRIdealEval output: %v (%d of %d)", err, len(out), len(abss))
	}
	return out
}

var c04Opts = synGenOpts{MaxNT: 3, MaxT: 3, MaxAlts: 3, MaxBody: 3, PEmpty: 0.15, PLit: 0.3, PDup: 0.15, PSplit: 0.15}

func conflictFeature(s idealSumm) string {
	switch {
	case s.AccConf:
		return "accept"
	case s.NConf > 0:
		return "sr" // shift/reduce and reduce/reduce have the same policy
	}
	return "none"
}

type goccExpect struct {
	Zero      bool `json:"zero"`
	Announced bool `json:"announced"`
	Count     int  `json:"count"` // expected number announced (states with a conflict); -1: do not compare
}

func checkC04(c *Ctx) {
	c.Level = "model_checking"
	c.Set("rule", "the canonical LR(1) automaton of every grammar is computed by TLC from LR1.tla (conflicting states, accept conflicts); the exit/announcement policy is the outcome table of the TLC-checked Pipeline.tla; the real gocc is run with and without -a and must announce conflicts iff the canonical automaton has one, with the number of conflicting states, and exit as the policy says; grammars with error alternatives are included (a conflict on the error symbol is a conflict); a family with a known number of conflicting states (confirmed by TLC for its small members) is run with 255, 256, 257 (thorough: 512, 768) conflicts. distinct_nontrivial counts distinct grammars that have at least one conflict")
	c.Assume("string literal contents `empty`/`error` are not generated (finding F13)")
	tab := c.pipelineTable()
	rng := rand.New(rand.NewSource(c.Seed))
	gs := append(curatedSyn(), repoSynGrammars()...)
	verbose := func(seed int64) {
		// coverage of the specification beyond the property: the -v listings of the same kind of
		// grammars against CFG.tla / LR1.tla (never a verdict)
		vr := rand.New(rand.NewSource(seed + 77))
		vg := append(curatedSyn(), curatedErrSyn()...)
		for i := 0; i < c.pick(20, 150); i++ {
			o := c04Opts
			o.PDup, o.ErrorAlts = 0, i%4 == 0
			vg = append(vg, genSynGrammar(vr, o))
		}
		c.verboseLeg(vg)
	}
	n := c.pick(60, 4000)
	for i := 0; i < n; i++ {
		o := c04Opts
		if i%3 == 0 {
			o = c02Opts
		}
		gs = append(gs, genSynGrammar(rng, o))
	}
	// every fourth grammar with error alternatives: a conflict on the error symbol is a conflict
	for i := 0; i < n/4; i++ {
		o := c04Opts
		o.ErrorAlts = true
		gs = append(gs, genSynGrammar(rng, o))
	}
	gs = append(gs, curatedErrSyn()...)
	// the family "k_i A_i | k_i B_i, A_i : x, B_i : x" has exactly one conflicting state per pair:
	// TLC confirms that for 1, 2, 3 pairs; the large members (numbers of conflicts around
	// multiples of 256, the modulus of an exit status) are run on gocc with that count
	small := len(gs)
	for k := 1; k <= 3; k++ {
		gs = append(gs, pairFamily(k))
	}
	abss := make([]synAbs, len(gs))
	for i, g := range gs {
		abss[i] = g.abstract()
	}
	ideal := c.lrIdealEval(abss)
	for k := 1; k <= 3; k++ {
		if s := ideal[small+k-1]; s.NConfStates != k || s.AccConf {
			infra("the pair family with %d pairs has %d conflicting states by LR1.tla: the closed form used for its large members is wrong", k, s.NConfStates)
		}
	}
	bigs := []int{255, 256, 257}
	if !c.Quick() {
		bigs = append(bigs, 512, 768)
	}
	for _, k := range bigs {
		gs = append(gs, pairFamily(k))
		ideal = append(ideal, idealSumm{NStates: -1, NConfStates: k, NConf: k})
	}
	c.Set("pair_family_sizes", bigs)
	for _, fl := range [][]string{nil, {"a"}} {
		m := c.NewModule("c04" + fmt.Sprint(len(fl)))
		runs := make([]GoccRun, len(gs))
		texts := make([]string, len(gs))
		parallel(len(gs), func(i int) {
			texts[i] = gs[i].render()
			runs[i] = m.GoccExt(fmt.Sprintf("g%03d", i), "g.bnf", []byte(texts[i]), 90*time.Second, flagArgs(fl)...)
		})
		for i := range gs {
			c.Add("evaluations", 1)
			feat := conflictFeature(ideal[i])
			if feat != "none" {
				c.Distinct(texts[i])
			}
			want, ok := tab[pipeKey(fl, true, true, feat)]
			if !ok {
				infra("no Pipeline row for %v %s", fl, feat)
			}
			exp := goccExpect{Zero: want.Status == 0, Announced: want.Announced, Count: -1}
			if want.Announced {
				exp.Count = ideal[i].NConfStates
			}
			if msg := compareGoccConflicts(runs[i], exp); msg != "" && c.firstFor(texts[i]+fmt.Sprint(fl)) {
				c.Violation(Replay{Kind: "gocc-conflicts", What: fmt.Sprintf("gocc %v on the grammar below (canonical LR(1): %d states, %d conflicting, accept conflict %v): %s\n%s", flagArgs(fl), ideal[i].NStates, ideal[i].NConfStates, ideal[i].AccConf, msg, indent(texts[i])),
					Data: map[string]any{"grammar": texts[i], "flags": flagArgs(fl), "expect": exp}})
			}
		}
		if len(fl) == 0 {
			for i := range gs {
				if ideal[i].NConf > 0 && len(c.samples) < 3 {
					c.Sample(map[string]any{"grammar": texts[i], "canonical_states": ideal[i].NStates, "conflicting_states": ideal[i].NConfStates, "gocc_exit": runs[i].Code, "gocc_announced": reportedConflicts(runs[i].Out)})
				}
			}
		}
	}
	verbose(c.Seed)
}

func compareGoccConflicts(run GoccRun, exp goccExpect) string {
	if run.TimedOut {
		return "gocc did not terminate within the time limit"
	}
	rep := reportedConflicts(run.Out)
	if (run.Code == 0) != exp.Zero {
		return fmt.Sprintf("exit status %d, specification says %s", run.Code, map[bool]string{true: "zero", false: "non-zero"}[exp.Zero])
	}
	if exp.Zero || exp.Announced {
		if (rep >= 0) != exp.Announced {
			return fmt.Sprintf("conflicts announced: %v (count %d), specification says announced: %v", rep >= 0, rep, exp.Announced)
		}
		if exp.Count >= 0 && rep != exp.Count {
			return fmt.Sprintf("%d conflicts announced, the canonical automaton has %d conflicting states", rep, exp.Count)
		}
	}
	return ""
}

func replayGoccConflicts(c *Ctx, r *Replay) (bool, string) {
	var d struct {
		Grammar string     `json:"grammar"`
		Flags   []string   `json:"flags"`
		Expect  goccExpect `json:"expect"`
	}
	b, _ := json.Marshal(r.Data)
	if err := json.Unmarshal(b, &d); err != nil {
		infra("replay data: %v", err)
	}
	c.mu.Lock()
	c.tlcSeq++
	tag := fmt.Sprintf("greplay%03d", c.tlcSeq)
	c.mu.Unlock()
	m := c.NewModule(tag)
	run := m.GoccExt("g000", "g.bnf", []byte(d.Grammar), 90*time.Second, d.Flags...)
	if msg := compareGoccConflicts(run, d.Expect); msg != "" {
		return true, msg
	}
	return false, "exit status and conflict announcement as specified"
}

// pairFamily: S : k_i A_i | k_i B_i (i < n), A_i : x, B_i : x: after k_i x both A_i and B_i can
// be reduced at the end of the input; n conflicting states.
func pairFamily(n int) *SynGrammar {
	g := &SynGrammar{NTs: []string{"S"}, Terms: []string{"x"}, IsLit: []bool{true}}
	for i := 0; i < n; i++ {
		g.NTs = append(g.NTs, fmt.Sprintf("A%d", i), fmt.Sprintf("B%d", i))
		g.Terms = append(g.Terms, fmt.Sprintf("k%d", i))
		g.IsLit = append(g.IsLit, true)
	}
	for i := 0; i < n; i++ {
		g.Prods = append(g.Prods, P(0, T(1+i), N(1+2*i)), P(0, T(1+i), N(2+2*i)))
	}
	for i := 0; i < n; i++ {
		g.Prods = append(g.Prods, P(1+2*i, T(0)), P(2+2*i, T(0)))
	}
	g.NoLexDefs = false
	return g
}
