package main

import (
	"encoding/json"
	"regexp"
	"sort"
	"strconv"
	"strings"
	"time"
)

// pipeOutcome is one row of the outcome table of Pipeline.tla.
type pipeOutcome struct {
	Flags     []string `json:"flags"`
	Parses    bool     `json:"parses"`
	HasSyntax bool     `json:"hasSyntax"`
	Conflict  string   `json:"conflict"`
	Status    int      `json:"status"`
	Written   []string `json:"written"`
	Announced bool     `json:"announced"`
}

func pipeKey(flags []string, parses, hasSyntax bool, conflict string) string {
	f := append([]string{}, flags...)
	sort.Strings(f)
	return strings.Join(f, ",") + "|" + strconv.FormatBool(parses) + "|" + strconv.FormatBool(hasSyntax) + "|" + conflict
}

var rePipe = regexp.MustCompile(`(?m)^<<"PIPE", (".*")>>$`)

// pipelineTable model-checks Pipeline.tla (termination, zero-means-complete, conflict policy)
// and returns its outcome table: the specification's prediction for every combination of
// flags and input features.
func (c *Ctx) pipelineTable() map[string]pipeOutcome {
	r := c.RunTLC(TLCOpts{Module: "Pipeline", Cfg: "Pipeline.cfg", Workers: 1, Timeout: 10 * time.Minute})
	if !r.OK {
		infra("Pipeline.tla violates its own properties (%s %s)\n%s", r.ErrKind, r.InvViolated, tail(filterTLC(r.Out), 40))
	}
	c.Add("states", r.Distinct)
	c.Add("transitions", r.Generated)
	tab := map[string]pipeOutcome{}
	for _, m := range rePipe.FindAllStringSubmatch(r.Out, -1) {
		s, err := strconv.Unquote(m[1])
		if err != nil {
			continue
		}
		var o pipeOutcome
		if json.Unmarshal([]byte(s), &o) != nil {
			continue
		}
		tab[pipeKey(o.Flags, o.Parses, o.HasSyntax, o.Conflict)] = o
	}
	if m := regexp.MustCompile(`the maximum (\d+) and the 95th`).FindStringSubmatch(r.Out); m == nil || m[1] != "1" {
		infra("Pipeline.tla is not deterministic (maximum out-degree %v)", m)
	}
	c.Set("pipeline_max_outdegree", 1)
	if len(tab) < 100 {
		infra("Pipeline outcome table has only %d rows", len(tab))
	}
	c.Set("pipeline_rows", len(tab))
	return tab
}

// flagArgs turns flag names of the model into command-line arguments.
func flagArgs(names []string) []string {
	var a []string
	for _, n := range names {
		a = append(a, "-"+n)
	}
	return a
}
