package main

import (
	"fmt"
	"sort"
	"strings"
	"unicode/utf8"
)

// LexCase is one lexical grammar that went through the real gocc and whose generated lexer
// is linked into a driver.
type LexCase struct {
	Sub   string
	G     *LexGrammar
	Text  string
	Abs   lexAbs
	Dump  *lexRes
	Flags []string
}

type LexBatch struct {
	M      *Module
	Cases  []*LexCase
	Drv    *LexDriver
	Reject int // gocc exit != 0
	Hung   int // gocc timed out
}

// buildLexBatch runs the real gocc on every grammar, compiles one driver for all generated
// lexers and reads out the real DFAs.
func (c *Ctx) buildLexBatch(tag string, gs []*LexGrammar, flags ...string) *LexBatch {
	m := c.NewModule(tag)
	b := &LexBatch{M: m}
	cases := make([]*LexCase, len(gs))
	runs := make([]GoccRun, len(gs))
	parallel(len(gs), func(i int) {
		sub := fmt.Sprintf("g%03d", i)
		text := gs[i].render()
		runs[i] = m.Gocc(sub, text, flags...)
		cases[i] = &LexCase{Sub: sub, G: gs[i], Text: text, Abs: gs[i].abstract(), Flags: flags}
	})
	var subs []string
	for i, r := range runs {
		switch {
		case r.TimedOut:
			b.Hung++
			c.noteHang(cases[i].Text)
		case r.Code != 0:
			b.Reject++
			c.noteReject(cases[i].Text, r.Out)
		default:
			b.Cases = append(b.Cases, cases[i])
			subs = append(subs, cases[i].Sub)
		}
	}
	if len(subs) == 0 {
		infra("no grammar of the batch was accepted by gocc")
	}
	drv, out := m.BuildLexDriver("drv", subs)
	if drv == nil {
		// a generated package that does not compile is C09's finding; find the culprit(s),
		// drop them and rebuild so that this check still decides its own property.
		var good []*LexCase
		subs = nil
		for _, cs := range b.Cases {
			if o, ok := m.BuildPkgs("./" + cs.Sub + "/..."); ok {
				good = append(good, cs)
				subs = append(subs, cs.Sub)
			} else {
				c.noteReject(cs.Text, "generated code does not compile: "+tail(o, 5))
				b.Reject++
			}
		}
		b.Cases = good
		drv, out = m.BuildLexDriver("drv", subs)
		if drv == nil {
			infra("lexer driver does not compile:\n%s", tail(out, 40))
		}
	}
	b.Drv = drv
	var ops []lexOp
	for _, cs := range b.Cases {
		names := []string{}
		for _, t := range cs.Abs.Toks {
			if t.Kind == "tok" {
				names = append(names, t.Name)
			}
		}
		ops = append(ops, lexOp{Op: "dump", G: cs.Sub, Probes: probesOf(cs.G), NIds: len(names) + 4, Names: names})
	}
	res, _ := drv.Run(ops)
	for i := range res {
		b.Cases[i].Dump = &res[i]
	}
	return b
}

func (c *Ctx) noteReject(text, out string) {
	c.Add("gocc_rejected", 1)
	if c.Get("gocc_rejected") <= 3 {
		fmt.Printf("note: gocc rejected a generated grammar (outside the property's domain, skipped):\n%s\n--\n%s\n", indent(text), indent(tail(out, 6)))
	}
}

func (c *Ctx) noteHang(text string) {
	c.Add("gocc_timeouts", 1)
	if c.Get("gocc_timeouts") <= 3 {
		fmt.Printf("note: gocc timed out on a generated grammar (C09's business, skipped here):\n%s\n", indent(text))
	}
}

// productEntry is the JSON record LexProduct.tla reads.
func (cs *LexCase) productEntry() map[string]any {
	tokmap := make([]int, len(cs.Dump.TokId))
	for n, id := range cs.Dump.TokId {
		for i, t := range cs.Abs.Toks {
			if t.Kind == "tok" && t.Name == id {
				tokmap[n] = i + 1
			}
		}
	}
	return map[string]any{
		"tokmap": tokmap,
		"abs":   cs.Abs,
		"T":     cs.Dump.T,
		"acc":   cs.Dump.Acc,
		"ign":   cs.Dump.Ign,
		"tokid": cs.Dump.TokId,
		"sub":   cs.Sub,
	}
}

// textOfAtoms builds a concrete text from a path of atom numbers (first rune of each atom
// that can occur in text).
func (g *LexGrammar) textOfAtoms(path []int, pick int) ([]byte, bool) {
	var b []byte
	for _, a := range path {
		at := g.Atoms[a-1]
		rs := at.reps()
		r := rs[pick%len(rs)]
		if !utf8.ValidRune(r) {
			return nil, false
		}
		b = utf8.AppendRune(b, r)
	}
	return b, true
}

// srcRunes decodes a byte string exactly as the generated Scan loop does and describes each
// rune for the TLA+ side: atom, width, offset, kind.
type srcRune struct {
	A int    `json:"a"`
	W int    `json:"w"`
	O int    `json:"o"`
	K string `json:"k"`
	R int    `json:"r"`
}

func (g *LexGrammar) srcRunes(in []byte) []srcRune {
	out := []srcRune{}
	for o := 0; o < len(in); {
		r, w := utf8.DecodeRune(in[o:])
		k := "o"
		switch r {
		case '\n':
			k = "nl"
		case '\r':
			k = "cr"
		case '\t':
			k = "tab"
		}
		out = append(out, srcRune{A: g.atomOf(r), W: w, O: o, K: k, R: int(r)})
		o += w
	}
	return out
}

func describeToks(ts []drvTok, ids []string) string {
	var sb strings.Builder
	for i, t := range ts {
		if i > 0 {
			sb.WriteString(" ")
		}
		id := fmt.Sprint(t.Type)
		if t.Type >= 0 && t.Type < len(ids) {
			id = ids[t.Type]
		}
		fmt.Fprintf(&sb, "%s%q@%d:%d:%d", id, t.Lit, t.Off, t.Line, t.Col)
	}
	return sb.String()
}

func sortedKeys[V any](m map[string]V) []string {
	ks := make([]string, 0, len(m))
	for k := range m {
		ks = append(ks, k)
	}
	sort.Strings(ks)
	return ks
}
