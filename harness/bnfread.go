package main

import (
	"fmt"
	"os"
	"path/filepath"
	"strconv"
	"strings"
)

// ---------------------------------------------------------------------------------------
// An independent reader of gocc grammar files (spec/gocc2.ebnf syntax), used to bring the
// repository's own grammars (example/*, internal/test/*) into the checks as real-world
// shapes. It does not use gocc's front end: token classes by first character, character
// literals by strconv.UnquoteChar.

type bnfFile struct {
	Path string
	Lex  *LexGrammar // nil if the file has no lexical part and no string literals
	Syn  *SynGrammar // nil if the file has no syntax part
	Why  string      // reason why a part could not be brought into the abstract form
}

type bnfParser struct {
	ts  []gtok
	pos int
	err error
}

func (p *bnfParser) peek() gtok {
	if p.pos < len(p.ts) {
		return p.ts[p.pos]
	}
	return gtok{"$end", ""}
}
func (p *bnfParser) next() gtok { t := p.peek(); p.pos++; return t }
func (p *bnfParser) expect(kind string) {
	if t := p.next(); t.Kind != kind && p.err == nil {
		p.err = fmt.Errorf("expected %q, found %q at token %d", kind, t.Text, p.pos-1)
	}
}

func (p *bnfParser) lexPattern() *Re {
	alts := []*Re{p.lexAlt()}
	for p.peek().Kind == "|" && p.err == nil {
		p.next()
		alts = append(alts, p.lexAlt())
	}
	return reAltN(alts...)
}

func (p *bnfParser) lexAlt() *Re {
	var terms []*Re
	for p.err == nil {
		switch k := p.peek().Kind; k {
		case ".":
			p.next()
			terms = append(terms, reDot())
		case "char_lit":
			lo := p.charVal(p.next().Text)
			if p.peek().Kind == "-" {
				p.next()
				if p.peek().Kind != "char_lit" {
					p.err = fmt.Errorf("range without upper bound")
					return reDot()
				}
				hi := p.charVal(p.next().Text)
				terms = append(terms, reSet(lo, hi))
			} else {
				terms = append(terms, reChar(lo))
			}
		case "regDefId":
			terms = append(terms, reRef(p.next().Text))
		case "[":
			p.next()
			x := p.lexPattern()
			p.expect("]")
			terms = append(terms, reOpt(x))
		case "{":
			p.next()
			x := p.lexPattern()
			p.expect("}")
			terms = append(terms, reStar(x))
		case "(":
			p.next()
			x := p.lexPattern()
			p.expect(")")
			x.Grp = true
			terms = append(terms, x)
		default:
			if len(terms) == 0 {
				p.err = fmt.Errorf("empty lexical alternative at token %d (%q)", p.pos, p.peek().Text)
				return reDot()
			}
			return reCatN(terms...)
		}
	}
	return reDot()
}

func (p *bnfParser) charVal(lit string) rune {
	v, _, tail, err := strconv.UnquoteChar(lit[1:len(lit)-1], '\'')
	if err != nil || tail != "" {
		if p.err == nil {
			p.err = fmt.Errorf("character literal %s: %v", lit, err)
		}
		return 0
	}
	return v
}

// readBnf reads one grammar file into the abstract forms of the harness.
func readBnf(path string) *bnfFile {
	f := &bnfFile{Path: path}
	b, err := os.ReadFile(path)
	if err != nil {
		f.Why = err.Error()
		return f
	}
	ts := tokenizeGrammar(string(b))
	if ts == nil {
		f.Why = "cannot tokenise"
		return f
	}
	p := &bnfParser{ts: ts}
	lex := &LexGrammar{}
	syn := &SynGrammar{}
	ntIdx := map[string]int{}
	tIdx := map[string]int{}
	type rawAlt struct {
		head string
		body []gtok
		sdt  bool
	}
	var raws []rawAlt
	// optional file header directly before the first syntax production
	for p.pos < len(ts) && p.err == nil {
		t := p.peek()
		switch t.Kind {
		case "g_sdt_lit":
			p.next() // file header
		case "tokId", "regDefId", "ignoredTokId":
			name := p.next().Text
			p.expect(":")
			re := p.lexPattern()
			p.expect(";")
			kind := map[string]string{"tokId": "tok", "regDefId": "def", "ignoredTokId": "ign"}[t.Kind]
			lex.Defs = append(lex.Defs, LexDef{Name: name, Kind: kind, Re: re})
		case "prodId":
			head := p.next().Text
			p.expect(":")
			if _, ok := ntIdx[head]; !ok {
				ntIdx[head] = len(syn.NTs)
				syn.NTs = append(syn.NTs, head)
			}
			cur := rawAlt{head: head}
			for p.err == nil {
				x := p.next()
				if x.Kind == "|" || x.Kind == ";" {
					raws = append(raws, cur)
					cur = rawAlt{head: head}
					if x.Kind == ";" {
						break
					}
					continue
				}
				if x.Kind == "g_sdt_lit" {
					cur.sdt = true
					continue
				}
				if x.Kind == "$end" {
					p.err = fmt.Errorf("unterminated production %s", head)
					break
				}
				cur.body = append(cur.body, x)
			}
		default:
			p.err = fmt.Errorf("unexpected token %q at %d", t.Text, p.pos)
		}
	}
	if p.err != nil {
		f.Why = p.err.Error()
		return f
	}
	// nonterminals defined anywhere
	for _, r := range raws {
		if _, ok := ntIdx[r.head]; !ok {
			ntIdx[r.head] = len(syn.NTs)
			syn.NTs = append(syn.NTs, r.head)
		}
	}
	for _, r := range raws {
		pr := SynProd{Head: ntIdx[r.head]}
		if len(r.body) == 1 && r.body[0].Kind == "empty" {
			syn.Prods = append(syn.Prods, pr)
			continue
		}
		for _, x := range r.body {
			switch x.Kind {
			case "prodId":
				k, ok := ntIdx[x.Text]
				if !ok {
					f.Why = "undefined production " + x.Text
					return f
				}
				pr.Body = append(pr.Body, N(k))
			case "tokId", "error", "empty", "string_lit":
				name, lit := x.Text, false
				if x.Kind == "string_lit" {
					name, lit = x.Text[1:len(x.Text)-1], true
				}
				key := fmt.Sprint(lit) + name
				if _, ok := tIdx[key]; !ok {
					tIdx[key] = len(syn.Terms)
					syn.Terms = append(syn.Terms, name)
					syn.IsLit = append(syn.IsLit, lit)
				}
				pr.Body = append(pr.Body, T(tIdx[key]))
			default:
				f.Why = fmt.Sprintf("unexpected %q in a syntax body", x.Text)
				return f
			}
		}
		syn.Prods = append(syn.Prods, pr)
	}
	if len(syn.Prods) > 0 {
		f.Syn = syn
		for i, t := range syn.Terms {
			if syn.IsLit[i] {
				lex.Lits = append(lex.Lits, t)
			}
		}
	}
	if len(lex.Defs) > 0 || len(lex.Lits) > 0 {
		lex.computeAtoms()
		f.Lex = lex
	}
	return f
}

// repoGrammars reads every .bnf file of the repository.
func repoGrammars() []*bnfFile {
	var files []string
	filepath.Walk(repoRoot, func(p string, info os.FileInfo, err error) error {
		if err == nil && !info.IsDir() && strings.HasSuffix(p, ".bnf") {
			files = append(files, p)
		}
		return nil
	})
	var out []*bnfFile
	for _, f := range files {
		out = append(out, readBnf(f))
	}
	return out
}

// lexInDomain says whether a lexical grammar read from a file lies in the domain of the C01
// product check: no nullable token pattern, no recursive regular definition, every regular
// definition in one of the conflation-free classes (as judged on the definition and ALL its
// uses), no nullable regular definition.
func (g *LexGrammar) lexInDomain() (bool, string) {
	defs := map[string]*Re{}
	for _, d := range g.Defs {
		if d.Kind == "def" {
			defs[d.Name] = d.Re
		}
	}
	// undefined or recursive definitions
	var depth func(r *Re, seen map[string]bool) bool
	depth = func(r *Re, seen map[string]bool) bool {
		if r == nil {
			return true
		}
		if r.K == "ref" {
			if seen[r.N] || defs[r.N] == nil {
				return false
			}
			s2 := map[string]bool{r.N: true}
			for k := range seen {
				s2[k] = true
			}
			if !depth(defs[r.N], s2) {
				return false
			}
		}
		return depth(r.L, seen) && depth(r.R, seen) && depth(r.X, seen)
	}
	for _, d := range g.Defs {
		if !depth(d.Re, map[string]bool{}) {
			return false, "recursive or undefined regular definition in " + d.Name
		}
	}
	for _, d := range g.Defs {
		if d.Kind != "def" && g.nullable(d.Re) {
			return false, "token pattern " + d.Name + " matches the empty string"
		}
		if d.Kind == "def" && g.nullable(d.Re) {
			return false, "regular definition " + d.Name + " matches the empty string"
		}
	}
	// class of every definition
	isSingle := map[string]bool{}
	var single func(r *Re) bool
	single = func(r *Re) bool {
		switch r.K {
		case "set":
			return true
		case "alt":
			return single(r.L) && single(r.R)
		case "ref":
			return defs[r.N] != nil && single(defs[r.N])
		}
		return false
	}
	for n, r := range defs {
		isSingle[n] = single(r)
	}
	for n := range defs {
		if isSingle[n] {
			continue // CF-a
		}
		// CF-c: every use is the first term of a top-level alternative of a token or ignored
		// token (not of another definition), at most one use per production
		for _, d := range g.Defs {
			uses := 0
			var count func(r *Re)
			count = func(r *Re) {
				if r == nil {
					return
				}
				if r.K == "ref" && r.N == n {
					uses++
				}
				count(r.L)
				count(r.R)
				count(r.X)
			}
			count(d.Re)
			if uses == 0 {
				continue
			}
			if d.Kind == "def" {
				return false, fmt.Sprintf("regular definition %s (not a single-rune class) is used inside the definition %s", n, d.Name)
			}
			head := 0
			for _, a := range topAlts(d.Re) {
				ps := catParts(a)
				if ps[0].K == "ref" && ps[0].N == n {
					head++
				}
			}
			if head != uses || uses > 1 {
				return false, fmt.Sprintf("regular definition %s (not a single-rune class) is used %d times in %s, %d of them in head position", n, uses, d.Name, head)
			}
		}
	}
	return true, ""
}

// repoSynGrammars: the syntax parts of the repository's grammars (actions and file headers are
// dropped: they refer to packages of the repository; the table construction does not depend
// on them).
func repoSynGrammars() []*SynGrammar {
	var out []*SynGrammar
	for _, f := range repoGrammars() {
		if f.Syn != nil && f.Why == "" {
			g := f.Syn
			g.normalize()
			out = append(out, g)
		}
	}
	return out
}
