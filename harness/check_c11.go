package main

import (
	"fmt"
	"math/rand"
	"path/filepath"
	"strings"
	"time"
)

func init() {
	register("C11", checkC11)
	replayers["determinism"] = replayDeterminism
}

// runVariants runs gocc k times on the same file with the same flags in identically named
// directories (fresh process each time: fresh map seeds; different GOMAXPROCS) and returns
// the distinct (exit, conflict count, tree hash) outcomes.
func (c *Ctx) runRepeated(tag, text string, flags []string, k int) (map[string]int, []string) {
	outcomes := map[string]int{}
	var descr []string
	res := make([]string, k)
	parallel(k, func(i int) {
		m := c.NewModule(fmt.Sprintf("%s_r%02d", tag, i))
		env := append(goEnv(), fmt.Sprintf("GOMAXPROCS=%d", []int{1, 2, 16, 3}[i%4]))
		mustWrite(filepath.Join(m.Dir, "g", "g.bnf"), []byte(text))
		args := append(append([]string{}, flags...), "-o", "g", "g/g.bnf")
		r := runCmd(cmdOpts{Dir: m.Dir, Timeout: 90 * time.Second, Env: env}, c.Gocc, args...)
		h, files := hashTree(filepath.Join(m.Dir, "g"))
		res[i] = fmt.Sprintf("exit=%d conflicts=%d timedout=%v files=%d hash=%s", r.Code, reportedConflicts(r.Out), r.TimedOut, len(files), h)
	})
	for _, r := range res {
		if outcomes[r] == 0 {
			descr = append(descr, r)
		}
		outcomes[r]++
	}
	return outcomes, descr
}

func checkC11(c *Ctx) {
	c.Level = "exploration"
	c.Set("rule", "Pipeline.tla (TLC-checked) and the table-producing operators of LR1.tla/Regex.tla are functions: the specification admits exactly one outcome per (file, flags); the real gocc is run k times per (grammar, flag set) in fresh processes (fresh hash seeds) with GOMAXPROCS in {1,2,3,16}, in identically named directories; exit status, conflict count and every generated .go file must be byte-identical across runs. Grammars are biased towards what could expose map iteration order (many look-aheads per item, many conflicts per row, many token ids and string literals, several ignored tokens, one family with several hundred states and conflicting rows). Differential over runs: exploration, not a proof about Go's runtime. distinct_nontrivial counts (grammar, flag set) pairs with >= 2 runs compared")
	tab := c.pipelineTable() // includes TLC's check that Next is deterministic
	_ = tab
	rng := rand.New(rand.NewSource(c.Seed))
	k := c.pick(4, 16)
	n := c.pick(10, 200)
	type item struct {
		text  string
		flags []string
	}
	var items []item
	flagSets := [][]string{{"-a"}, {"-a", "-v"}, {"-a", "-zip"}, {}, {"-a", "-debug_parser", "-debug_lexer"}, {"-a", "-no_lexer"}}
	for i := 0; i < n; i++ {
		o := synGenOpts{MaxNT: 5, MaxT: 6, MaxAlts: 5, MaxBody: 4, PEmpty: 0.15, PLit: 0.5, PDup: 0.05, Actions: false, ErrorAlts: i%3 == 0}
		g := genSynGrammar(rng, o)
		items = append(items, item{g.render(), flagSets[i%len(flagSets)]})
	}
	for i := 0; i < n; i++ {
		// several ignored tokens, several definitions: whatever is kept in a map has an order to lose
		lg := genLexGrammar(rng, lexGenOpts{MaxToks: 6, MaxIgn: 4, MaxDefs: 3, MaxLits: 3, Depth: 3})
		items = append(items, item{lg.render(), flagSets[i%2]})
	}
	// tables with more than 256 states and many conflicting rows (work that might be split over CPUs)
	big := pairFamily(c.pick(130, 300))
	items = append(items, item{big.render(), []string{"-a"}}, item{big.render(), []string{"-a", "-zip"}}, item{big.render(), nil})
	for i, it := range items {
		outs, descr := c.runRepeated(fmt.Sprintf("c11_%03d", i), it.text, it.flags, k)
		c.Add("evaluations", int64(k))
		c.Distinct(it.text + strings.Join(it.flags, " "))
		if len(outs) > 1 && c.firstFor(it.text) {
			c.Violation(Replay{Kind: "determinism", What: fmt.Sprintf("%d runs of gocc %v on the same file gave %d different outcomes: %v\n%s", k, it.flags, len(outs), descr, indent(it.text)),
				Data: map[string]any{"text": it.text, "flags": it.flags, "runs": 4 * k}})
		}
		if i == 0 {
			c.Sample(map[string]any{"flags": it.flags, "runs": k, "outcome": descr[0], "grammar": it.text})
		}
	}
}

func replayDeterminism(c *Ctx, r *Replay) (bool, string) {
	text, _ := r.Data["text"].(string)
	var flags []string
	if f, ok := r.Data["flags"].([]any); ok {
		for _, x := range f {
			flags = append(flags, fmt.Sprint(x))
		}
	}
	k := 32
	if x, ok := r.Data["runs"].(float64); ok {
		k = int(x)
	}
	outs, descr := c.runRepeated("c11rep", text, flags, k)
	if len(outs) > 1 {
		return true, fmt.Sprintf("%d runs, %d different outcomes: %v", k, len(outs), descr)
	}
	return false, fmt.Sprintf("%d runs, one outcome", k)
}
