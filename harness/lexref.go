package main

import (
	"bytes"
	"encoding/base64"
	"encoding/json"
	"fmt"
	"os"
	"path/filepath"
	"time"
)

// refTok is a token of the TLA+ reference tokenizer (LexRef.tla).
type refTok struct {
	Tid    int    `json:"tid"` // index (1-based) in abs.toks, 0 = INVALID, -1 = end of input
	From   int    `json:"from"`
	To     int    `json:"to"`
	Off    int    `json:"off"`
	EndOff int    `json:"endoff"`
	Line   int    `json:"line"`
	Col    int    `json:"col"`
}

type refIn struct {
	Abs  lexAbs      `json:"abs"`
	Srcs [][]srcRune `json:"srcs"`
}

// lexRefEval evaluates the reference tokenizer with TLC on the given texts.
func (c *Ctx) lexRefEval(in []refIn) [][][]refTok {
	r := c.RunTLC(TLCOpts{Module: "LexRefEval", Cfg: "LexRefEval.cfg", Files: map[string][]byte{"refin.json": mustJSON(in)}, Workers: 1, Timeout: 20 * time.Minute})
	r.mustOK("LexRefEval")
	b, err := os.ReadFile(filepath.Join(r.Dir, "refout.json"))
	if err != nil {
		infra("LexRefEval wrote no output: %v\n%s", err, tail(filterTLC(r.Out), 30))
	}
	var out [][][]refTok
	if err := json.Unmarshal(b, &out); err != nil {
		infra("LexRefEval output: %v", err)
	}
	if len(out) != len(in) {
		infra("LexRefEval: %d results for %d inputs", len(out), len(in))
	}
	c.Add("states", r.Distinct)
	return out
}

// refName names a reference token.
func refName(rt refTok, abs *lexAbs) string {
	switch {
	case rt.Tid == 0:
		return "INVALID"
	case rt.Tid == -1:
		return "EOF"
	case rt.Tid >= 1 && rt.Tid <= len(abs.Toks):
		return abs.Toks[rt.Tid-1].Name
	}
	return fmt.Sprintf("?%d", rt.Tid)
}

func tokName(t drvTok, ids []string) string {
	switch {
	case t.Type == 0:
		return "INVALID"
	case t.Type == 1:
		return "EOF"
	case t.Type >= 0 && t.Type < len(ids):
		return ids[t.Type]
	}
	return fmt.Sprintf("#%d", t.Type)
}

// compareStreams compares a real token stream (Scan until EOF + extra calls) with the
// reference stream. It returns "" when they agree.
func compareStreams(in []byte, real []drvTok, ref []refTok, ids []string, abs *lexAbs, withPos bool, panicMsg string) string {
	if panicMsg != "" {
		return "Scan panicked: " + panicMsg
	}
	for i, rt := range ref {
		if i >= len(real) {
			return fmt.Sprintf("real lexer returned only %d tokens, reference has %d", len(real), len(ref))
		}
		t := real[i]
		want := in[rt.Off:rt.EndOff]
		rn := refName(rt, abs)
		if n := tokName(t, ids); n != rn {
			return fmt.Sprintf("token %d: real type %s, reference %s (lexeme %q at offset %d)", i, n, rn, want, rt.Off)
		}
		if !bytes.Equal(t.Lit, want) {
			return fmt.Sprintf("token %d (%s): real literal %q, reference lexeme %q", i, rn, t.Lit, want)
		}
		if t.Off != rt.Off {
			return fmt.Sprintf("token %d (%s %q): real offset %d, reference offset %d", i, rn, want, t.Off, rt.Off)
		}
		if withPos && (t.Line != rt.Line || t.Col != rt.Col) {
			return fmt.Sprintf("token %d (%s %q at offset %d): real position line=%d col=%d, reference line=%d col=%d", i, rn, want, t.Off, t.Line, t.Col, rt.Line, rt.Col)
		}
	}
	// after the first EOF every further call returns EOF at the same position
	last := ref[len(ref)-1]
	for i := len(ref); i < len(real); i++ {
		t := real[i]
		if t.Type != 1 || t.Off != last.Off || (withPos && (t.Line != last.Line || t.Col != last.Col)) || len(t.Lit) != 0 {
			return fmt.Sprintf("call %d after end of input: got %s %q at offset=%d line=%d col=%d, want EOF at offset=%d line=%d col=%d", i, tokName(t, ids), t.Lit, t.Off, t.Line, t.Col, last.Off, last.Line, last.Col)
		}
	}
	if len(real) < len(ref)+1 {
		return fmt.Sprintf("driver did not call Scan after end of input (real %d tokens, reference %d)", len(real), len(ref))
	}
	return ""
}

// comparePrefix compares the first tokens of a scan that was cut short.
func comparePrefix(in []byte, real []drvTok, ref []refTok, ids []string, abs *lexAbs, withPos bool, panicMsg string) string {
	if panicMsg != "" {
		return "Scan panicked: " + panicMsg
	}
	for i, rt := range ref {
		if i >= len(real) {
			break
		}
		t := real[i]
		want := in[rt.Off:rt.EndOff]
		if tokName(t, ids) != refName(rt, abs) || !bytes.Equal(t.Lit, want) || t.Off != rt.Off || withPos && (t.Line != rt.Line || t.Col != rt.Col) {
			return fmt.Sprintf("token %d before the Reset: real %s %q at %d:%d:%d, reference %s %q at %d:%d:%d", i, tokName(t, ids), t.Lit, t.Off, t.Line, t.Col, refName(rt, abs), want, rt.Off, rt.Line, rt.Col)
		}
	}
	return ""
}

// ---------------------------------------------------------------------------------------
// replay of a lexer finding: grammar text + abstract grammar + atoms + input bytes

func lexReplayData(cs *LexCase, in []byte, resets int, withPos bool) map[string]any {
	atoms := [][2]int{}
	for _, a := range cs.G.Atoms {
		atoms = append(atoms, [2]int{int(a.Lo), int(a.Hi)})
	}
	return map[string]any{
		"grammar": cs.Text,
		"abs":     cs.Abs,
		"atoms":   atoms,
		"input":   base64.StdEncoding.EncodeToString(in),
		"inputq":  fmt.Sprintf("%q", in),
		"flags":   cs.Flags,
		"resets":  resets,
		"pos":     withPos,
	}
}

func init() {
	replayers["lex"] = replayLex
}

// replayLex regenerates the lexer with the real gocc, scans the input and compares the token
// stream (types, literals, positions, EOF stickiness, behaviour after Reset) with LexRef.
func replayLex(c *Ctx, r *Replay) (bool, string) {
	var d struct {
		Grammar string   `json:"grammar"`
		Abs     lexAbs   `json:"abs"`
		Atoms   [][2]int `json:"atoms"`
		Input   string   `json:"input"`
		Flags   []string `json:"flags"`
		Resets  int      `json:"resets"`
		Pos     bool     `json:"pos"`
		Partial int      `json:"partial"`
	}
	b, _ := json.Marshal(r.Data)
	if err := json.Unmarshal(b, &d); err != nil {
		infra("replay data: %v", err)
	}
	in, err := base64.StdEncoding.DecodeString(d.Input)
	if err != nil {
		infra("replay input: %v", err)
	}
	g := &LexGrammar{}
	for _, a := range d.Atoms {
		g.Atoms = append(g.Atoms, Atom{Lo: rune(a[0]), Hi: rune(a[1])})
	}
	c.mu.Lock()
	c.tlcSeq++
	tag := fmt.Sprintf("replay%03d", c.tlcSeq)
	c.mu.Unlock()
	m := c.NewModule(tag)
	run := m.Gocc("g000", d.Grammar, d.Flags...)
	if run.TimedOut || run.Code != 0 {
		return false, fmt.Sprintf("gocc does not accept the grammar any more (code %d)", run.Code)
	}
	drv, out := m.BuildLexDriver("drv", []string{"g000"})
	if drv == nil {
		return false, "generated lexer does not compile: " + tail(out, 5)
	}
	names := []string{}
	for _, t := range d.Abs.Toks {
		names = append(names, t.Name)
	}
	res, _ := drv.Run([]lexOp{
		{Op: "dump", G: "g000", Probes: [][]rune{{0}}, NIds: len(names) + 4, Names: names},
		{Op: "scan", G: "g000", Inputs: [][]byte{in}, Resets: d.Resets, Extra: 2, Partial: d.Partial},
	})
	ids := res[0].TokId
	ref := c.lexRefEval([]refIn{{Abs: d.Abs, Srcs: [][]srcRune{g.srcRunes(in)}}})[0][0]
	for k, round := range res[1].Scans[0] {
		r := ref
		if k == 0 && d.Partial > 0 {
			// only the first tokens were scanned before the Reset: compare that prefix
			if len(round) < len(ref) {
				r = ref[:len(round)]
			}
			if msg := comparePrefix(in, round, r, ids, &d.Abs, d.Pos, res[1].Panics[0]); msg != "" {
				return true, msg + "; real tokens: " + describeToks(round, ids)
			}
			continue
		}
		if msg := compareStreams(in, round, r, ids, &d.Abs, d.Pos, res[1].Panics[0]); msg != "" {
			if k > 0 {
				msg = fmt.Sprintf("after Reset #%d: %s", k, msg)
			}
			return true, msg + "; real tokens: " + describeToks(round, ids)
		}
	}
	return false, "real token stream equals the reference"
}
