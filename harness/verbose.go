package main

import (
	"fmt"
	"os"
	"path/filepath"
	"strings"
	"time"
)

// ---------------------------------------------------------------------------------------
// LRVerbose.tla: what gocc -v writes about the syntax part (first.txt, LR1_sets.txt) against
// FIRST/nullable of CFG.tla and the canonical collection of LR1.tla. Coverage of the
// specification beyond the listed properties: a disagreement is printed as a NOTE and recorded
// in the evidence, it never decides an exit status.

type vbItem struct {
	P  int `json:"p"`
	D  int `json:"d"`
	La int `json:"la"`
}
type vbTrans struct {
	Sym int `json:"sym"`
	To  int `json:"to"`
}
type vbFirst struct {
	Set   []int `json:"set"`
	Empty bool  `json:"empty"`
}
type vbCase struct {
	G      synAbs      `json:"g"`
	First  []vbFirst   `json:"first"`
	States [][]vbItem  `json:"states"`
	Trans  [][]vbTrans `json:"trans"`
}

// verboseNamesOK: the listing separates symbols by blanks and marks the dot and the look-ahead
// with • « »: only grammars whose names contain none of these can be read back without guessing,
// and two alternatives with the same text cannot be told apart in it.
func verboseNamesOK(g *SynGrammar) bool {
	for i, t := range g.Terms {
		if t == "" || strings.ContainsAny(t, " \t\n\r•«»") || (g.IsLit[i] && (t == "empty" || t == "error")) {
			return false
		}
		for _, n := range g.NTs {
			if n == t {
				return false
			}
		}
	}
	seen := map[string]bool{}
	for _, p := range g.Prods {
		k := fmt.Sprint(p.Head, p.Body)
		if seen[k] {
			return false
		}
		seen[k] = true
	}
	return true
}

func (g *SynGrammar) parseVerbose(dir string) (*vbCase, string) {
	abs := g.abstract()
	sym := map[string]int{"␚": 1, "S'": abs.NT + 1}
	for i, t := range g.Terms {
		sym[t] = g.termID(i)
	}
	for i, n := range g.NTs {
		sym[n] = g.ntID(i)
	}
	prodOf := map[string]int{"S' : " + g.NTs[0]: 1}
	for i, p := range g.Prods {
		var names []string
		for _, s := range p.Body {
			names = append(names, g.symString2(s))
		}
		body := strings.Join(names, " ")
		if len(p.Body) == 0 {
			body = "empty"
		}
		prodOf[g.NTs[p.Head]+" : "+body] = i + 2
	}
	vc := &vbCase{G: abs}
	// ---- first.txt
	fb, err := os.ReadFile(filepath.Join(dir, "first.txt"))
	if err != nil {
		return nil, "no first.txt"
	}
	firsts := map[int]*vbFirst{}
	cur := -1
	for _, ln := range strings.Split(string(fb), "\n") {
		switch {
		case strings.HasSuffix(ln, ": {"):
			id, ok := sym[strings.TrimSuffix(ln, ": {")]
			if !ok {
				return nil, "first.txt: unknown nonterminal in " + ln
			}
			cur = id
			firsts[cur] = &vbFirst{Set: []int{}}
		case ln == "}" || ln == "":
		case strings.HasPrefix(ln, "\t") && cur >= 0:
			name := ln[1:]
			if name == "empty" {
				firsts[cur].Empty = true
				break
			}
			id, ok := sym[name]
			if !ok {
				return nil, "first.txt: unknown symbol " + name
			}
			firsts[cur].Set = append(firsts[cur].Set, id)
		}
	}
	for k := 0; k <= len(g.NTs); k++ {
		f := firsts[abs.NT+1+k]
		if f == nil {
			f = &vbFirst{Set: []int{}}
		}
		vc.First = append(vc.First, *f)
	}
	// ---- LR1_sets.txt
	sb, err := os.ReadFile(filepath.Join(dir, "LR1_sets.txt"))
	if err != nil {
		return nil, "no LR1_sets.txt"
	}
	mode := ""
	for _, ln := range strings.Split(string(sb), "\n") {
		switch {
		case strings.HasPrefix(ln, "S") && strings.HasSuffix(ln, "{") && !strings.HasPrefix(ln, "\t"):
			vc.States = append(vc.States, []vbItem{})
			vc.Trans = append(vc.Trans, []vbTrans{})
			mode = "items"
		case ln == "}":
			mode = ""
		case ln == "Transitions:":
			mode = "trans"
		case strings.HasPrefix(ln, "\t") && mode == "items":
			t := ln[1:]
			li := strings.LastIndex(t, " «")
			if li < 0 || !strings.HasSuffix(t, "»") {
				return nil, "LR1_sets.txt: item without look-ahead: " + t
			}
			la, ok := sym[t[li+len(" «"):len(t)-len("»")]]
			if !ok {
				return nil, "LR1_sets.txt: unknown look-ahead in " + t
			}
			hb := strings.SplitN(t[:li], " : ", 2)
			if len(hb) != 2 {
				return nil, "LR1_sets.txt: item without head: " + t
			}
			toks := strings.Split(hb[1], " ")
			d := -1
			for k, x := range toks {
				if strings.HasPrefix(x, "•") {
					d = k
					toks[k] = strings.TrimPrefix(x, "•")
				} else if strings.HasSuffix(x, "•") {
					d = k + 1
					toks[k] = strings.TrimSuffix(x, "•")
				}
			}
			if d < 0 {
				return nil, "LR1_sets.txt: item without dot: " + t
			}
			body := strings.Join(toks, " ")
			p, ok := prodOf[hb[0]+" : "+body]
			if !ok {
				return nil, "LR1_sets.txt: no such alternative: " + hb[0] + " : " + body
			}
			if body == "empty" {
				d = 0
			}
			n := len(vc.States) - 1
			vc.States[n] = append(vc.States[n], vbItem{P: p, D: d, La: la})
		case strings.HasPrefix(ln, "\t") && mode == "trans":
			parts := strings.Split(ln[1:], " -> ")
			if len(parts) != 2 {
				return nil, "LR1_sets.txt: transition line: " + ln
			}
			id, ok := sym[parts[0]]
			if !ok {
				return nil, "LR1_sets.txt: unknown symbol in transition: " + ln
			}
			n := len(vc.Trans) - 1
			vc.Trans[n] = append(vc.Trans[n], vbTrans{Sym: id, To: atoi(parts[1]) + 1})
		}
	}
	if len(vc.States) == 0 {
		return nil, "LR1_sets.txt lists no state"
	}
	return vc, ""
}

// symString2: the name of a symbol as the -v listings print it (a literal without its quotes).
func (g *SynGrammar) symString2(s Sym) string {
	if s.NT {
		return g.NTs[s.Idx]
	}
	return g.Terms[s.Idx]
}

// verboseLeg generates the grammars with -v and judges the listings with LRVerbose.tla.
func (c *Ctx) verboseLeg(gs []*SynGrammar) {
	var ok []*SynGrammar
	for _, g := range gs {
		if verboseNamesOK(g) {
			ok = append(ok, g)
		}
	}
	if len(ok) == 0 {
		return
	}
	m := c.NewModule("verbose")
	cases := make([]*vbCase, len(ok))
	why := make([]string, len(ok))
	parallel(len(ok), func(i int) {
		sub := fmt.Sprintf("g%03d", i)
		text := strings.ReplaceAll(ok[i].render(), "@@PKG@@", "scratch/"+sub)
		run := m.GoccExt(sub, "g.bnf", []byte(text), 90*time.Second, "-a", "-v")
		if run.Code != 0 || run.TimedOut {
			why[i] = "gocc refused or timed out"
			return
		}
		cases[i], why[i] = ok[i].parseVerbose(filepath.Join(m.Dir, sub))
	})
	var live []*vbCase
	var liveG []*SynGrammar
	unread := 0
	for i, vc := range cases {
		if vc != nil {
			live = append(live, vc)
			liveG = append(liveG, ok[i])
		} else if why[i] != "gocc refused or timed out" {
			unread++
			if c.firstFor("verbose-unread") {
				fmt.Printf("NOTE property=%s: a -v listing could not be read back (%s); recorded, not a verdict\n", c.ID, why[i])
			}
		}
	}
	if len(live) == 0 {
		c.Set("verbose_listings", map[string]any{"grammars": 0, "unreadable": unread})
		return
	}
	r := c.RunTLC(TLCOpts{Module: "LRVerbose", Cfg: "LexRefEval.cfg", Workers: 1, Timeout: 30 * time.Minute, Files: map[string][]byte{"verbose.json": mustJSON(live)}})
	if !r.OK {
		fmt.Printf("NOTE property=%s: LRVerbose.tla could not be evaluated (%s); recorded, not a verdict\n", c.ID, r.ErrKind)
		c.Set("verbose_listings", map[string]any{"grammars": len(live), "evaluated": false})
		return
	}
	var vs []struct {
		First   bool `json:"first"`
		States  bool `json:"states"`
		NStates int  `json:"nstates"`
	}
	b, err := os.ReadFile(filepath.Join(r.Dir, "verbose_verdicts.json"))
	if err != nil || jsonUnmarshal(b, &vs) != nil || len(vs) != len(live) {
		c.Set("verbose_listings", map[string]any{"grammars": len(live), "evaluated": false})
		return
	}
	badF, badS, states := 0, 0, 0
	for i, v := range vs {
		states += v.NStates
		if !v.First {
			badF++
		}
		if !v.States {
			badS++
		}
		if (!v.First || !v.States) && c.firstFor("verbose-bad") {
			fmt.Printf("NOTE property=%s: gocc -v listings disagree with CFG.tla/LR1.tla (first.txt agrees: %v, LR1_sets.txt is the canonical collection: %v) for the grammar below; no listed property speaks about these files, recorded only\n%s", c.ID, v.First, v.States, indent(liveG[i].render()))
		}
	}
	c.Add("states", int64(states))
	c.Set("verbose_listings", map[string]any{"grammars": len(live), "unreadable": unread, "lr1_states_compared": states,
		"first_txt_disagreeing": badF, "lr1_sets_txt_disagreeing": badS,
		"rule": "first.txt = FIRST/nullable of CFG.tla; LR1_sets.txt = the canonical LR(1) collection of LR1.tla (initial closure, every transition = Goto, no duplicate, all reachable)"})
}
