package main

import (
	"fmt"
	"math/rand"
	"strings"
)

// ---------------------------------------------------------------------------------------
// Abstract context-free grammars (the shape CFG.tla works on) and their rendering in
// gocc's BNF.

// Sym: a grammar symbol. NT=false: terminal index into SynGrammar.Terms; NT=true: index into NTs.
type Sym struct {
	NT  bool
	Idx int
}

type SynProd struct {
	Head   int    // index into NTs
	Body   []Sym  // empty: the alternative is written `empty`
	Action string // "" = no action; "log" = logging action; anything else: literal action text
}

type SynGrammar struct {
	NTs    []string // user nonterminals in order of first definition; NTs[0] is the start symbol
	Terms  []string // terminal names: token ids, or the content of string literals
	IsLit  []bool   // Terms[i] is a string literal
	Prods  []SynProd
	Header string // extra file header text (imports)
	// LexExtra: extra lexical productions (ignored tokens etc.), rendered verbatim
	LexExtra string
	// NoLexDefs: do not render lexical definitions for the token ids (for -no_lexer grammars)
	NoLexDefs bool
	// Split: Prods is in file order as it stands and the alternatives of a nonterminal need not
	// be adjacent: every run of productions with the same head is rendered as one rule, so a
	// nonterminal may be defined by several rules ("A : x ; B : y ; A : z ;")
	Split bool
}

func T(i int) Sym { return Sym{false, i} }
func N(i int) Sym { return Sym{true, i} }

// errTerm returns the index of the terminal named "error", or -1.
func (g *SynGrammar) errTerm() int {
	for i, t := range g.Terms {
		if t == "error" && !g.IsLit[i] {
			return i
		}
	}
	return -1
}

// prodsByHead returns production indices grouped by head, heads in NT order. This is the
// order in which the alternatives are rendered, i.e. gocc's production numbering (+1 for S').
func (g *SynGrammar) order() []int {
	var ord []int
	if g.Split {
		for i := range g.Prods {
			ord = append(ord, i)
		}
		return ord
	}
	for h := range g.NTs {
		for i, p := range g.Prods {
			if p.Head == h {
				ord = append(ord, i)
			}
		}
	}
	return ord
}

// normalize reorders Prods into rendering order so that Prods[i] is gocc's production i+1.
func (g *SynGrammar) normalize() {
	ord := g.order()
	ps := make([]SynProd, 0, len(ord))
	for _, i := range ord {
		ps = append(ps, g.Prods[i])
	}
	g.Prods = ps
}

// splitRules moves the last alternative of one nonterminal (with at least two alternatives and
// not the last one defined) to the end of the file: the nonterminal is then defined by two
// rules that are not adjacent. The grammar must be normalized. Reports whether it did.
func (g *SynGrammar) splitRules(rng *rand.Rand) bool {
	if g.Split || len(g.NTs) < 2 {
		return false
	}
	var cand []int
	for h := 0; h < len(g.NTs)-1; h++ {
		n := 0
		for _, p := range g.Prods {
			if p.Head == h {
				n++
			}
		}
		if n >= 2 {
			cand = append(cand, h)
		}
	}
	if len(cand) == 0 {
		return false
	}
	h := cand[rng.Intn(len(cand))]
	last := -1
	for i, p := range g.Prods {
		if p.Head == h {
			last = i
		}
	}
	if last == len(g.Prods)-1 {
		return false
	}
	mv := g.Prods[last]
	g.Prods = append(append(g.Prods[:last:last], g.Prods[last+1:]...), mv)
	g.Split = true
	return true
}

func (g *SynGrammar) symString(s Sym) string {
	if s.NT {
		return g.NTs[s.Idx]
	}
	if g.IsLit[s.Idx] {
		return quoteLit(g.Terms[s.Idx])
	}
	return g.Terms[s.Idx]
}

// lexChar: the single character that the lexical definition of token id number i matches.
func lexCharFor(i int) rune { return rune('a' + i%26) }

func (g *SynGrammar) render() string {
	var b strings.Builder
	if !g.NoLexDefs {
		for i, t := range g.Terms {
			if g.IsLit[i] || t == "error" || t == "empty" {
				continue
			}
			// every token id gets a distinct one-or-two character lexeme: '#' + letter(s)
			fmt.Fprintf(&b, "%s : '#' '%c' '%c' ;\n", t, 'a'+(i/26)%26, 'a'+i%26)
		}
		b.WriteString("!ws : ' ' | '\\t' | '\\n' | '\\r' ;\n")
	}
	b.WriteString(g.LexExtra)
	b.WriteString("\n")
	hdr := g.Header
	needLog := false
	for _, p := range g.Prods {
		if p.Action == "log" {
			needLog = true
		}
	}
	if needLog {
		// @@PKG@@ is replaced by the package path of the output directory at generation time
		hdr += "\nimport \"scratch/vlog\"\nimport \"@@PKG@@/token\"\nvar _ = token.EOF\n"
	}
	if hdr != "" {
		fmt.Fprintf(&b, "<< %s >>\n\n", hdr)
	}
	// rules: runs of productions with the same head (all alternatives of a head, unless Split)
	type rule struct {
		head  int
		prods []int
	}
	var rules []rule
	if g.Split {
		for i, p := range g.Prods {
			if n := len(rules); n > 0 && rules[n-1].head == p.Head {
				rules[n-1].prods = append(rules[n-1].prods, i)
			} else {
				rules = append(rules, rule{p.Head, []int{i}})
			}
		}
	} else {
		for h := range g.NTs {
			r := rule{head: h}
			for i, p := range g.Prods {
				if p.Head == h {
					r.prods = append(r.prods, i)
				}
			}
			if len(r.prods) > 0 { // a nonterminal without productions: only in deliberately ill-formed grammars
				rules = append(rules, r)
			}
		}
	}
	pn := 0
	for _, r := range rules {
		for n, pi := range r.prods {
			p := g.Prods[pi]
			pn++
			if n == 0 {
				fmt.Fprintf(&b, "%s\n  : ", g.NTs[r.head])
			} else {
				b.WriteString("  | ")
			}
			if len(p.Body) == 0 {
				b.WriteString("empty")
			} else {
				for k, s := range p.Body {
					if k > 0 {
						b.WriteString(" ")
					}
					b.WriteString(g.symString(s))
				}
			}
			switch p.Action {
			case "":
			case "log":
				args := ""
				for k, s := range p.Body {
					if !s.NT && k%2 == 1 && s.Idx != g.errTerm() {
						// exercise $Tn as well: the token itself, through a type assertion
						args += fmt.Sprintf(", $T%d", k)
					} else {
						args += fmt.Sprintf(", $%d", k)
					}
				}
				if pn%3 == 0 {
					// the text of an action is Go source, not a format: a per cent sign in it
					// must reach the generated code as it is (the call number depends on it)
					fmt.Fprintf(&b, "  << vlog.Call($Context, %d+len(\"%%d%%s%%%%\")-6%s) >>", pn, args)
				} else {
					fmt.Fprintf(&b, "  << vlog.Call($Context, %d%s) >>", pn, args)
				}
			default:
				fmt.Fprintf(&b, "  << %s >>", p.Action)
			}
			b.WriteString("\n")
		}
		b.WriteString("  ;\n")
	}
	return b.String()
}

// ---------------------------------------------------------------------------------------
// abstract JSON for TLC (CFG.tla): terminals 1..nt (1 = end marker), S' = nt+1, user NT i = nt+2+i

type synAbsProd struct {
	H   int   `json:"h"`
	B   []int `json:"b"`
	Act bool  `json:"act"` // has a (logging) action
}
type synAbs struct {
	NT    int          `json:"nt"`
	NN    int          `json:"nn"`
	Prods []synAbsProd `json:"prods"`
	Err   int          `json:"err"`
}

func (g *SynGrammar) termID(i int) int { return i + 2 }
func (g *SynGrammar) ntID(i int) int   { return len(g.Terms) + 3 + i }

func (g *SynGrammar) abstract() synAbs {
	a := synAbs{NT: len(g.Terms) + 1, NN: len(g.NTs)}
	a.Prods = append(a.Prods, synAbsProd{H: a.NT + 1, B: []int{g.ntID(0)}})
	for _, p := range g.Prods {
		ap := synAbsProd{H: g.ntID(p.Head), B: []int{}, Act: p.Action != ""}
		for _, s := range p.Body {
			if s.NT {
				ap.B = append(ap.B, g.ntID(s.Idx))
			} else {
				ap.B = append(ap.B, g.termID(s.Idx))
			}
		}
		a.Prods = append(a.Prods, ap)
	}
	if e := g.errTerm(); e >= 0 {
		a.Err = g.termID(e)
	}
	return a
}

// symName names an abstract symbol number (for reports).
func (g *SynGrammar) symName(id int) string {
	switch {
	case id == 1:
		return "$end"
	case id <= len(g.Terms)+1:
		return g.Terms[id-2]
	case id == len(g.Terms)+2:
		return "S'"
	default:
		return g.NTs[id-len(g.Terms)-3]
	}
}

// ---------------------------------------------------------------------------------------
// random generation

type synGenOpts struct {
	MaxNT, MaxT, MaxAlts, MaxBody int
	PEmpty                        float64 // probability that an alternative is `empty`
	PLit                          float64 // probability that a terminal is a string literal
	PDup                          float64 // probability of duplicating an alternative (F9/F10 shape)
	POptRun                       float64 // probability of adding a run of optional nonterminals (X : empty | t) to a body
	ErrorAlts                     bool    // add alternatives that begin with `error`
	Actions                       bool    // logging actions on a random subset of alternatives
	Reduced                       bool    // remove unproductive nonterminals (C06's domain)
	PRawLit                       float64 // probability that a literal comes from rawLitPool
	PSplit                        float64 // probability that one nonterminal is defined by two rules that are not adjacent
}

// rawLitPool: string literals with a line break, NUL, a byte order mark (only where no debug
// output is read line by line: the literal is printed there as it is)
var rawLitPool = []string{"x\ny", "a\x00b", "\ufeffq", "a\tb"}

var litPool = []string{"+", "-", "*", "(", ")", ";", ",", "if", "else", "==", "=", "x y", "é", "a b", "日本"}

func genSynGrammar(rng *rand.Rand, o synGenOpts) *SynGrammar {
	g := &SynGrammar{}
	nn := 1 + rng.Intn(o.MaxNT)
	nt := 1 + rng.Intn(o.MaxT)
	ntNames := []string{"S", "A", "B", "C", "D", "E"}
	for i := 0; i < nn; i++ {
		g.NTs = append(g.NTs, ntNames[i])
	}
	usedLit := map[string]bool{}
	for i := 0; i < nt; i++ {
		if rng.Float64() < o.PLit {
			l := litPool[rng.Intn(len(litPool))]
			if o.PRawLit > 0 && rng.Float64() < o.PRawLit {
				l = rawLitPool[rng.Intn(len(rawLitPool))]
			}
			if !usedLit[l] {
				usedLit[l] = true
				g.Terms = append(g.Terms, l)
				g.IsLit = append(g.IsLit, true)
				continue
			}
		}
		g.Terms = append(g.Terms, fmt.Sprintf("t%d", i))
		g.IsLit = append(g.IsLit, false)
	}
	errIdx := -1
	if o.ErrorAlts {
		g.Terms = append(g.Terms, "error")
		g.IsLit = append(g.IsLit, false)
		errIdx = len(g.Terms) - 1
	}
	randSym := func() Sym {
		if rng.Intn(100) < 45 {
			return N(rng.Intn(nn))
		}
		return T(rng.Intn(nt))
	}
	for h := 0; h < nn; h++ {
		na := 1 + rng.Intn(o.MaxAlts)
		var alts [][]Sym
		for a := 0; a < na; a++ {
			if rng.Float64() < o.PEmpty {
				alts = append(alts, nil)
				continue
			}
			n := 1 + rng.Intn(o.MaxBody)
			body := make([]Sym, n)
			for k := range body {
				body[k] = randSym()
			}
			alts = append(alts, body)
		}
		if rng.Float64() < o.PDup && len(alts) > 0 {
			alts = append(alts, append([]Sym{}, alts[rng.Intn(len(alts))]...))
		}
		if o.ErrorAlts && rng.Intn(100) < 45 {
			n := rng.Intn(o.MaxBody)
			body := []Sym{T(errIdx)}
			for k := 0; k < n; k++ {
				body = append(body, randSym())
			}
			alts = append(alts, body)
		}
		for _, b := range alts {
			p := SynProd{Head: h, Body: b}
			if o.Actions && rng.Intn(100) < 70 {
				p.Action = "log"
			}
			g.Prods = append(g.Prods, p)
		}
	}
	// runs of optional parts: adjacent nullable nonterminals, each with its own terminal, followed
	// by a terminal of their own (look-aheads must be propagated through several nullable symbols)
	if rng.Float64() < o.POptRun && len(g.Prods) > 0 {
		k := 2 + rng.Intn(2)
		var run []Sym
		for j := 0; j < k; j++ {
			g.NTs = append(g.NTs, fmt.Sprintf("Opt%d", j))
			g.Terms = append(g.Terms, fmt.Sprintf("o%d", j))
			g.IsLit = append(g.IsLit, false)
			nt, t := len(g.NTs)-1, len(g.Terms)-1
			g.Prods = append(g.Prods, SynProd{Head: nt}, SynProd{Head: nt, Body: []Sym{T(t)}})
			if rng.Intn(3) == 0 {
				g.Prods[len(g.Prods)-1].Body = append(g.Prods[len(g.Prods)-1].Body, T(t))
			}
			if o.Actions && rng.Intn(2) == 0 {
				g.Prods[len(g.Prods)-2].Action = "log"
			}
			run = append(run, N(nt))
		}
		// sometimes the run sits behind a nonterminal of its own, which is then nullable only
		// through other nullable nonterminals
		if rng.Intn(2) == 0 {
			g.NTs = append(g.NTs, "OptAll")
			g.Prods = append(g.Prods, SynProd{Head: len(g.NTs) - 1, Body: run})
			run = []Sym{N(len(g.NTs) - 1)}
		}
		if rng.Intn(2) == 0 {
			g.Terms = append(g.Terms, "oend")
			g.IsLit = append(g.IsLit, false)
			run = append(run, T(len(g.Terms)-1))
		} else {
			// what follows the run is reached through two more nonterminals, defined further down:
			// FIRST of the whole body settles only after several passes
			g.NTs = append(g.NTs, "OptTail", "OptTail2")
			t1, t2 := len(g.NTs)-2, len(g.NTs)-1
			for _, n := range []string{"ot1", "ot2", "otv"} {
				g.Terms = append(g.Terms, n)
				g.IsLit = append(g.IsLit, false)
			}
			k := len(g.Terms)
			g.Prods = append(g.Prods, SynProd{Head: t1, Body: []Sym{N(t2), T(k - 1)}}, SynProd{Head: t2, Body: []Sym{T(k - 3)}}, SynProd{Head: t2, Body: []Sym{T(k - 2)}})
			run = append(run, N(t1))
		}
		// a new alternative of the start symbol: <terminal> Opt0 Opt1 .. <tail>, or, half of the
		// time, beginning with the run itself
		body := run
		if rng.Intn(2) == 0 {
			g.Terms = append(g.Terms, "obegin")
			g.IsLit = append(g.IsLit, false)
			body = append([]Sym{T(len(g.Terms) - 1)}, run...)
		}
		p := SynProd{Head: 0, Body: body}
		if o.Actions {
			p.Action = "log"
		}
		g.Prods = append(g.Prods, p)
	}
	if o.Reduced {
		g.removeUnproductive()
	}
	g.pruneTerms()
	g.normalize()
	if o.PSplit > 0 && rng.Float64() < o.PSplit {
		g.splitRules(rng)
	}
	return g
}

// pruneTerms removes terminals that occur in no production.
func (g *SynGrammar) pruneTerms() {
	used := make([]bool, len(g.Terms))
	for _, p := range g.Prods {
		for _, s := range p.Body {
			if !s.NT {
				used[s.Idx] = true
			}
		}
	}
	remap := make([]int, len(g.Terms))
	var terms []string
	var islit []bool
	for i := range g.Terms {
		if used[i] {
			remap[i] = len(terms)
			terms = append(terms, g.Terms[i])
			islit = append(islit, g.IsLit[i])
		}
	}
	for pi := range g.Prods {
		for k := range g.Prods[pi].Body {
			if !g.Prods[pi].Body[k].NT {
				g.Prods[pi].Body[k].Idx = remap[g.Prods[pi].Body[k].Idx]
			}
		}
	}
	g.Terms, g.IsLit = terms, islit
}

// productive returns the set of productive nonterminals.
func (g *SynGrammar) productive() []bool {
	pr := make([]bool, len(g.NTs))
	for again := true; again; {
		again = false
		for _, p := range g.Prods {
			if pr[p.Head] {
				continue
			}
			ok := true
			for _, s := range p.Body {
				if s.NT && !pr[s.Idx] {
					ok = false
				}
			}
			if ok {
				pr[p.Head] = true
				again = true
			}
		}
	}
	return pr
}

// removeUnproductive drops every production that mentions an unproductive nonterminal; if
// the start symbol is unproductive the grammar becomes S : t0.
func (g *SynGrammar) removeUnproductive() {
	pr := g.productive()
	var ps []SynProd
	for _, p := range g.Prods {
		ok := pr[p.Head]
		for _, s := range p.Body {
			if s.NT && !pr[s.Idx] {
				ok = false
			}
		}
		if ok {
			ps = append(ps, p)
		}
	}
	if !pr[0] {
		if len(g.Terms) == 0 {
			g.Terms, g.IsLit = []string{"t0"}, []bool{false}
		}
		ps = []SynProd{{Head: 0, Body: []Sym{T(0)}}}
	}
	// drop nonterminals that lost all productions (they are no longer referenced)
	keep := make([]int, len(g.NTs))
	var nts []string
	for i := range g.NTs {
		has := false
		for _, p := range ps {
			if p.Head == i {
				has = true
			}
		}
		if has {
			keep[i] = len(nts)
			nts = append(nts, g.NTs[i])
		} else {
			keep[i] = -1
		}
	}
	for i := range ps {
		ps[i].Head = keep[ps[i].Head]
		for k := range ps[i].Body {
			if ps[i].Body[k].NT {
				ps[i].Body[k].Idx = keep[ps[i].Body[k].Idx]
			}
		}
	}
	g.NTs, g.Prods = nts, ps
}

// ---------------------------------------------------------------------------------------
// curated syntax grammars

func synG(nts []string, terms []string, prods ...SynProd) *SynGrammar {
	g := &SynGrammar{NTs: nts, Terms: terms, IsLit: make([]bool, len(terms)), Prods: prods}
	for i, t := range terms {
		if strings.HasPrefix(t, "\"") {
			g.Terms[i] = strings.Trim(t, "\"")
			g.IsLit[i] = true
		}
	}
	g.normalize()
	return g
}

func P(h int, body ...Sym) SynProd { return SynProd{Head: h, Body: body} }

func curatedSyn() []*SynGrammar {
	return []*SynGrammar{
		// expression grammar, left recursive
		synG([]string{"E", "T", "F"}, []string{"\"+\"", "\"*\"", "\"(\"", "\")\"", "id"},
			P(0, N(0), T(0), N(1)), P(0, N(1)), P(1, N(1), T(1), N(2)), P(1, N(2)), P(2, T(2), N(0), T(3)), P(2, T(4))),
		// ambiguous expression grammar (shift/reduce conflicts)
		synG([]string{"E"}, []string{"\"+\"", "\"*\"", "id"}, P(0, N(0), T(0), N(0)), P(0, N(0), T(1), N(0)), P(0, T(2))),
		// dangling else
		synG([]string{"S"}, []string{"\"if\"", "\"else\"", "x"}, P(0, T(0), N(0)), P(0, T(0), N(0), T(1), N(0)), P(0, T(2))),
		// reduce/reduce
		synG([]string{"S", "A", "B"}, []string{"a"}, P(0, N(1)), P(0, N(2)), P(1, T(0)), P(2, T(0))),
		// list with empty alternative, right recursion
		synG([]string{"L", "I"}, []string{"a", "\",\""}, P(0), P(0, N(1), N(0)), P(1, T(0)), P(1, T(0), T(1))),
		// the start symbol derives itself (accept/reduce conflict)
		synG([]string{"S"}, []string{"b"}, P(0, N(0)), P(0, T(0))),
		// duplicate alternatives (F9)
		synG([]string{"S", "A"}, []string{"b"}, P(0, N(1)), P(1, T(0)), P(1, T(0))),
		// a string literal with a space vs two literals (F10)
		synG([]string{"A"}, []string{"\"a b\"", "\"a\"", "\"b\""}, P(0, T(0)), P(0, T(1), T(2))),
		// LR(1) but not LALR(1)
		synG([]string{"S", "A", "B"}, []string{"a", "b", "c", "d", "e"},
			P(0, T(0), N(1), T(3)), P(0, T(1), N(2), T(3)), P(0, T(0), N(2), T(4)), P(0, T(1), N(1), T(4)), P(1, T(2)), P(2, T(2))),
		// unreachable and unproductive nonterminals
		synG([]string{"S", "U", "V"}, []string{"a", "b"}, P(0, T(0)), P(1, T(1), N(1)), P(2, T(1))),
		// nullable chains
		synG([]string{"S", "A", "B"}, []string{"a", "b"}, P(0, N(1), N(2), T(0)), P(1), P(1, T(1)), P(2), P(2, N(1), T(0))),
		// a declaration with two adjacent optional parts (look-ahead through two nullable symbols)
		synG([]string{"Decl", "OptType", "OptInit"}, []string{"\"var\"", "name", "\":\"", "\"=\"", "\";\""},
			P(0, T(0), T(1), N(1), N(2), T(4)), P(1), P(1, T(2), T(1)), P(2), P(2, T(3), T(1))),
		// a nonterminal that is nullable only through other nullable nonterminals, behind another nonterminal
		synG([]string{"Pkg", "Name", "Decls", "Vars", "Funcs"}, []string{"\"pkg\"", "id", "\"end\"", "\"var\"", "\"func\""},
			P(0, T(0), N(1), N(2), T(2)), P(1, T(1)), P(2, N(3), N(4)), P(3), P(3, T(3), T(1)), P(4), P(4, T(4), T(1))),
		// three adjacent optional parts, the last alternative made of nullable symbols only
		synG([]string{"S", "A", "B", "C"}, []string{"a", "b", "c", "z"},
			P(0, N(1), N(2), N(3), T(3)), P(0, T(3), N(1), N(2)), P(1), P(1, T(0)), P(2), P(2, T(1)), P(3), P(3, T(2))),
		// a nonterminal defined by two rules that are not adjacent
		splitG(synG([]string{"Stmt", "Expr"}, []string{"\"let\"", "\"print\"", "x", "\"+\""},
			P(0, T(0), T(2)), P(1, T(2)), P(1, N(1), T(3), T(2)), P(0, T(1), N(1)))),
		// declarations written top-down: an alternative that begins with a nullable nonterminal,
		// followed by a nonterminal whose FIRST comes through another one defined further down
		synG([]string{"Decls", "Decl", "Mods", "Var", "Type"}, []string{"\";\"", "\"static\"", "v", "\"int\"", "\"bool\""},
			P(0, N(1)), P(0, N(0), N(1)), P(1, N(2), N(3), T(0)), P(2), P(2, T(1)), P(3, N(4), T(2)), P(4, T(3)), P(4, T(4))),
		// a nullable left-recursive list directly after another nonterminal
		synG([]string{"Block", "Header", "Stmts", "Stmt"}, []string{"\"begin\"", "\"end\"", "p", "x", "\";\""},
			P(0, N(1), N(2), T(1)), P(1, T(0), T(2)), P(2, N(2), N(3)), P(2), P(3, T(3), T(4))),
		// a reduce/reduce conflict between productions 9 and 10 (one and two digits)
		synG([]string{"S", "A", "B"}, []string{"x1", "x2", "x3", "x4", "x5", "x6", "a"},
			P(0, T(0)), P(0, T(1)), P(0, T(2)), P(0, T(3)), P(0, T(4)), P(0, T(5)), P(0, N(1)), P(0, N(2)), P(1, T(6)), P(2, T(6))),
		// a reduce/reduce conflict between an alternative of a second, later rule of A and B in between
		splitRR(),
		// long right-recursive chains (a cascade of reductions at the end of the input)
		synG([]string{"Type", "Base"}, []string{"name", "\"->\"", "\"(\"", "\")\""},
			P(0, N(1)), P(0, N(1), T(1), N(0)), P(1, T(0)), P(1, T(2), N(0), T(3))),
	}
}

// splitRR: S : A | B ; A : a ; B : x ; A : x ; - production numbers follow the file, not the heads
func splitRR() *SynGrammar {
	g := &SynGrammar{NTs: []string{"S", "A", "B"}, Terms: []string{"a", "x"}, IsLit: []bool{false, false}, Split: true}
	g.Prods = []SynProd{P(0, N(1)), P(0, N(2)), P(1, T(0)), P(2, T(1)), P(1, T(1))}
	return g
}

// splitG marks a grammar whose Prods are written in file order with non-adjacent rules for one
// nonterminal (synG normalizes: it is undone here by moving the last alternative of the first
// nonterminal to the end).
func splitG(g *SynGrammar) *SynGrammar {
	last := -1
	for i, p := range g.Prods {
		if p.Head == 0 {
			last = i
		}
	}
	mv := g.Prods[last]
	g.Prods = append(append(g.Prods[:last:last], g.Prods[last+1:]...), mv)
	g.Split = true
	return g
}

// curatedErrSyn: grammars with error alternatives (C07)
func curatedErrSyn() []*SynGrammar {
	return []*SynGrammar{
		// statement list with recovery to ';'
		synG([]string{"L", "St"}, []string{"a", "\";\"", "error"}, P(0, N(1)), P(0, N(0), N(1)), P(1, T(0), T(1)), P(1, T(2), T(1))),
		// F11a: the error entry of a state is a reduce
		synG([]string{"Z", "A", "Pq"}, []string{"error", "x", "y", "w", "z"},
			P(0, T(0), T(1), T(2)), P(0, T(0), N(1), N(2)), P(0, T(3)), P(1, T(1)), P(2, T(0), T(4))),
		// F11b: the topmost flagged state cannot shift error
		synG([]string{"Stmt"}, []string{"a", "error", "b", "c"}, P(0, T(0)), P(0, T(1), T(2), T(3))),
		// nested recovery points
		synG([]string{"P", "B", "S"}, []string{"\"{\"", "\"}\"", "s", "error"},
			P(0, N(1)), P(1, T(0), N(2), T(1)), P(1, T(3), T(1)), P(2), P(2, N(2), T(2)), P(2, N(2), N(1)), P(2, N(2), T(3), T(2))),
		// error alone
		synG([]string{"S"}, []string{"a", "error"}, P(0, T(0), T(0)), P(0, T(1))),
		// error is a look-ahead of a reduction in a state that cannot shift it, and no state on
		// the stack can: the error entry that Error() finds is a reduce
		synG([]string{"Z", "A", "Pq"}, []string{"x", "error", "z"}, P(0, N(1), N(2)), P(1, T(0)), P(2, T(1), T(2))),
		// an error alternative behind a nullable prefix, below an outer error alternative: the state
		// after x has error in FIRST of what it expects but cannot shift it
		synG([]string{"S", "B", "A", "C"}, []string{"x", "error", "y", "a", "z", "w"},
			P(0, T(0), N(1)), P(0, T(1), T(2)), P(1, N(2), N(3)), P(2), P(2, T(3)), P(3, T(4)), P(3, T(1), T(5))),
		// the end of the input is acceptable after error
		synG([]string{"U", "D", "M"}, []string{"v", "\";\"", "b", "e", "error"},
			P(0, N(1), N(2)), P(1, T(0), T(1)), P(1, T(4), T(1)), P(2, T(2), T(3)), P(2, T(4))),
	}
}

// withoutErrorAlts returns the grammar without the alternatives that begin with `error`.
func (g *SynGrammar) withoutErrorAlts() *SynGrammar {
	e := g.errTerm()
	if e < 0 {
		return g
	}
	h := &SynGrammar{NTs: g.NTs, Terms: g.Terms, IsLit: g.IsLit, Split: g.Split}
	for _, p := range g.Prods {
		if len(p.Body) > 0 && !p.Body[0].NT && p.Body[0].Idx == e {
			continue
		}
		h.Prods = append(h.Prods, p)
	}
	return h
}

// mcGrammarEntries: the records MC_LRParse.tla reads.
func mcGrammarEntries(gs []*SynGrammar) []map[string]any {
	var out []map[string]any
	for _, g := range gs {
		ne := g.withoutErrorAlts().abstract()
		ne.Err = 0
		out = append(out, map[string]any{"abs": g.abstract(), "noerr": ne})
	}
	return out
}

// kfSyn: grammars that exhibit known findings; never part of the regular pools.
func kfSyn() []*SynGrammar {
	return []*SynGrammar{
		// F13: a string literal whose content is the word empty is compiled as the empty alternative
		synG([]string{"S"}, []string{"\"empty\"", "a"}, P(0, T(0), T(1))),
		// F13: ... and the content error as the recovery symbol
		synG([]string{"S"}, []string{"\"error\"", "a"}, P(0, T(0), T(1)), P(0, T(1))),
	}
}

// curatedActionSyn: grammars whose action expressions stress the $-vocabulary (C03): bodies
// with more than ten symbols ($10, $T11), empty alternatives with and without action,
// pass-through alternatives.
func curatedActionSyn() []*SynGrammar {
	long := synG([]string{"S", "A"}, []string{"a", "b", "c", "\"+\""},
		SynProd{Head: 0, Body: []Sym{T(0), T(1), T(2), N(1), T(0), T(1), T(2), N(1), T(0), T(1), T(2), T(3), N(1)}, Action: "log"},
		SynProd{Head: 0, Body: []Sym{T(3)}, Action: "log"},
		SynProd{Head: 1, Body: nil, Action: "log"},
		SynProd{Head: 1, Body: []Sym{T(1), T(1)}},
		SynProd{Head: 1, Body: []Sym{T(2), N(1)}, Action: "log"})
	mixed := synG([]string{"L", "E", "O"}, []string{"x", "\",\"", "y"},
		SynProd{Head: 0, Body: []Sym{N(1)}},
		SynProd{Head: 0, Body: []Sym{N(0), T(1), N(1)}, Action: "log"},
		SynProd{Head: 1, Body: []Sym{T(0), N(2)}, Action: "log"},
		SynProd{Head: 2, Body: nil},
		SynProd{Head: 2, Body: []Sym{T(2)}})
	return []*SynGrammar{long, mixed}
}
