package main

import (
	"encoding/json"
	"fmt"
	"os"
	"path/filepath"
	"regexp"
	"strings"
	"time"
)

// ---------------------------------------------------------------------------------------
// Driver program for generated parsers. One executable links the parser/token/errors
// packages of a batch of grammars. A small file is dropped into the scratch copy of every
// generated parser package to read the unexported tables (after init(), so that -zip tables
// are seen decoded). Parsing is driven through the public API only: a scripted Scanner
// hands out token objects, the logging action package scratch/vlog records every action
// call with its arguments; every event is printed to stdout as a line "@@EV <json>", so the
// lines of -debug_parser interleave with them in execution order.

const vlogSrc = `// Package vlog is the logging runtime used by generated test grammars.
package vlog

import (
	"encoding/json"
	"errors"
	"fmt"
	"os"
	"reflect"
	"sync"
)

var ErrInjected = errors.New("injected action failure")

// Node is the value returned by a logging action.
type Node struct{ ID int }

// Run is the per-Parse logging context; it is handed to the parser as its Context.
type Run struct {
	mu     sync.Mutex
	Quiet  bool // do not print events (they are still collected)
	Events []map[string]interface{}
	toks   map[uintptr]int
	keep   []interface{} // the registered token objects: while they are reachable no other object can get their address
	calls  int
	FailAt int // the FailAt-th action call returns an error (0: none)
	Gate   func(kind string) // called before every scan and action call (schedule control)
}

func NewRun() *Run { return &Run{toks: map[uintptr]int{}} }

// MaxEvents bounds the events of one Parse: a parser that reduces or scans forever is stopped
// by a panic (recorded as an event of its own) instead of filling memory.
const MaxEvents = 4000

func (r *Run) Emit(ev map[string]interface{}) {
	r.mu.Lock()
	if len(r.Events) >= MaxEvents && ev["ev"] != "panic" {
		r.mu.Unlock()
		panic("vlog: more than 4000 events in one Parse: the parser does not terminate")
	}
	defer r.mu.Unlock()
	r.Events = append(r.Events, ev)
	if !r.Quiet {
		b, _ := json.Marshal(ev)
		fmt.Fprintf(os.Stdout, "@@EV %s\n", b)
	}
}

// RegisterToken records the identity of a token object handed out by the scanner.
func (r *Run) RegisterToken(ptr interface{}, idx int) {
	r.mu.Lock()
	r.toks[reflect.ValueOf(ptr).Pointer()] = idx
	r.keep = append(r.keep, ptr)
	r.mu.Unlock()
}

// Describe turns an attribute into a small JSON-able description.
func (r *Run) Describe(a interface{}) map[string]interface{} {
	if a == nil {
		return map[string]interface{}{"k": "nil", "i": 0}
	}
	if n, ok := a.(*Node); ok {
		return map[string]interface{}{"k": "n", "i": n.ID}
	}
	v := reflect.ValueOf(a)
	if v.Kind() == reflect.Ptr && !v.IsNil() {
		r.mu.Lock()
		idx, ok := r.toks[v.Pointer()]
		r.mu.Unlock()
		if ok {
			return map[string]interface{}{"k": "t", "i": idx}
		}
		e := v.Elem()
		if e.Kind() == reflect.Struct && e.FieldByName("ErrorToken").IsValid() && e.FieldByName("ErrorSymbols").IsValid() {
			d := map[string]interface{}{"k": "e", "i": 0}
			if et := e.FieldByName("ErrorToken"); !et.IsNil() {
				d["i"] = r.Describe(et.Interface())["i"]
			}
			syms := []interface{}{}
			es := e.FieldByName("ErrorSymbols")
			for i := 0; i < es.Len(); i++ {
				syms = append(syms, r.Describe(es.Index(i).Interface()))
			}
			d["syms"] = syms
			exp := []string{}
			et := e.FieldByName("ExpectedTokens")
			for i := 0; i < et.Len(); i++ {
				exp = append(exp, et.Index(i).String())
			}
			d["exp"] = exp
			d["haserr"] = !e.FieldByName("Err").IsNil()
			return d
		}
	}
	return map[string]interface{}{"k": "?", "i": 0, "go": fmt.Sprintf("%T", a)}
}

// Call is what a logging action expression invokes: vlog.Call($Context, <production>, $0, $1, ...)
func Call(ctx interface{}, prod int, args ...interface{}) (interface{}, error) {
	r, ok := ctx.(*Run)
	if !ok {
		return nil, fmt.Errorf("vlog: $Context is %T, not *vlog.Run", ctx)
	}
	if r.Gate != nil {
		r.Gate("call")
	}
	r.mu.Lock()
	r.calls++
	n := r.calls
	r.mu.Unlock()
	ds := []interface{}{}
	for _, a := range args {
		ds = append(ds, r.Describe(a))
	}
	r.Emit(map[string]interface{}{"ev": "call", "p": prod, "args": ds, "n": n})
	if r.FailAt == n {
		return nil, ErrInjected
	}
	return &Node{ID: n}, nil
}
`

const parseDumpSrc = `package parser

// VerifEntry is one action table entry.
type VerifEntry struct {
	K string ` + "`json:\"k\"`" + `
	N int    ` + "`json:\"n\"`" + `
}

type VerifProd struct {
	Id     string ` + "`json:\"id\"`" + `
	NTType int    ` + "`json:\"nttype\"`" + `
	Index  int    ` + "`json:\"index\"`" + `
	NSym   int    ` + "`json:\"nsym\"`" + `
	Str    string ` + "`json:\"str\"`" + `
}

type VerifTables struct {
	NumStates  int            ` + "`json:\"nstates\"`" + `
	NumSymbols int            ` + "`json:\"ncols\"`" + `
	Act        [][]VerifEntry ` + "`json:\"act\"`" + `
	Rec        []bool         ` + "`json:\"rec\"`" + `
	Goto       [][]int        ` + "`json:\"goto\"`" + `
	PTab       []VerifProd    ` + "`json:\"ptab\"`" + `
}

// VerifDump reads the (unexported) tables of this generated parser.
func VerifDump() VerifTables {
	t := VerifTables{NumStates: numStates, NumSymbols: numSymbols}
	for s := 0; s < numStates; s++ {
		row := make([]VerifEntry, numSymbols)
		for c := 0; c < numSymbols; c++ {
			switch a := actionTab[s].actions[c].(type) {
			case nil:
				row[c] = VerifEntry{"none", 0}
			case accept:
				row[c] = VerifEntry{"accept", 0}
			case shift:
				row[c] = VerifEntry{"shift", int(a)}
			case reduce:
				row[c] = VerifEntry{"reduce", int(a)}
			default:
				row[c] = VerifEntry{"unknown", 0}
			}
		}
		t.Act = append(t.Act, row)
		t.Rec = append(t.Rec, actionTab[s].canRecover)
		g := make([]int, numNTSymbols)
		for j := 0; j < numNTSymbols; j++ {
			g[j] = gotoTab[s][j]
		}
		t.Goto = append(t.Goto, g)
	}
	for _, p := range productionsTable {
		t.PTab = append(t.PTab, VerifProd{p.Id, p.NTType, p.Index, p.NumSymbols, p.String})
	}
	return t
}
`

const parseDrvMain = `package main

import (
	"encoding/json"
	"fmt"
	"os"
	"sync"
	"time"

	"scratch/vlog"
)

type Input struct {
	Toks   []int ` + "`json:\"toks\"`" + `
	FailAt int   ` + "`json:\"failat\"`" + `
}

type Op struct {
	Op        string    ` + "`json:\"op\"`" + `
	G         string    ` + "`json:\"g\"`" + `
	Names     []string  ` + "`json:\"names\"`" + `
	NIds      int       ` + "`json:\"nids\"`" + `
	Histories [][]Input ` + "`json:\"histories\"`" + `
	NilCtx    bool      ` + "`json:\"nilctx\"`" + `
	// concurrent: run every history in its own goroutine, each on its own parser
	Concurrent bool     ` + "`json:\"concurrent\"`" + `
	Repeat     int      ` + "`json:\"repeat\"`" + `
	// schedule: order in which the goroutines may pass their gates (goroutine = history index)
	Schedule   []int    ` + "`json:\"schedule\"`" + `
	// texts: instead of scripted token types, real lexers over these texts (one per history)
	Texts      [][]string ` + "`json:\"texts\"`" + `
}

type sched struct {
	mu    sync.Mutex
	cond  *sync.Cond
	order []int
	pos   int
	done  map[int]bool
}

func newSched(order []int) *sched {
	s := &sched{order: order, done: map[int]bool{}}
	s.cond = sync.NewCond(&s.mu)
	return s
}

func (s *sched) skipDone() {
	for s.pos < len(s.order) && s.done[s.order[s.pos]] {
		s.pos++
	}
}

func (s *sched) gate(id int) {
	s.mu.Lock()
	s.skipDone()
	for s.pos < len(s.order) && s.order[s.pos] != id {
		s.cond.Wait()
		s.skipDone()
	}
	if s.pos < len(s.order) {
		s.pos++
	}
	s.cond.Broadcast()
	s.mu.Unlock()
}

func (s *sched) finish(id int) {
	s.mu.Lock()
	s.done[id] = true
	s.skipDone()
	s.cond.Broadcast()
	s.mu.Unlock()
}

type Res struct {
	G      string          ` + "`json:\"g\"`" + `
	Err    string          ` + "`json:\"err,omitempty\"`" + `
	Tables json.RawMessage ` + "`json:\"tables,omitempty\"`" + `
	TokId  []string        ` + "`json:\"tokid\"`" + `
	TypeOf []int           ` + "`json:\"typeof\"`" + `
	// Runs[h][i]: events of the i-th Parse of history h (only filled for concurrent/quiet ops)
	Runs [][][]map[string]interface{} ` + "`json:\"runs,omitempty\"`" + `
}

type Pkg struct {
	Dump    func() interface{}
	TokId   func(n int) string
	TokType func(s string) int
	// NewParser returns a function that parses one scripted input on the same parser object.
	NewParser func() func(in Input, run *vlog.Run)
	// NewTextParser: the same with a real generated lexer over a text as the scanner
	NewTextParser func() func(text []byte, run *vlog.Run)
}

var pkgs = map[string]*Pkg{}

func main() {
	b, err := os.ReadFile(os.Args[1])
	if err != nil {
		panic(err)
	}
	var ops []Op
	if err := json.Unmarshal(b, &ops); err != nil {
		panic(err)
	}
	var out []Res
	for oi, op := range ops {
		p := pkgs[op.G]
		r := Res{G: op.G}
		if p == nil {
			r.Err = "no such package"
			out = append(out, r)
			continue
		}
		switch op.Op {
		case "dump":
			tb, _ := json.Marshal(p.Dump())
			r.Tables = tb
			for n := 0; n < op.NIds; n++ {
				r.TokId = append(r.TokId, p.TokId(n))
			}
			for _, n := range op.Names {
				r.TypeOf = append(r.TypeOf, p.TokType(n))
			}
		case "parse":
			if op.Concurrent {
				rep := op.Repeat
				if rep < 1 {
					rep = 1
				}
				nG := len(op.Histories)
				if len(op.Texts) > 0 {
					nG = len(op.Texts)
				}
				r.Runs = make([][][]map[string]interface{}, nG)
				var sc *sched
				if len(op.Schedule) > 0 {
					sc = newSched(op.Schedule)
				}
				var wg sync.WaitGroup
				for hi := 0; hi < nG; hi++ {
					wg.Add(1)
					go func(hi int) {
						defer wg.Done()
						if sc != nil {
							defer sc.finish(hi)
						}
						for k := 0; k < rep; k++ {
							var runs [][]map[string]interface{}
							mk := func() *vlog.Run {
								run := vlog.NewRun()
								run.Quiet = true
								if sc != nil {
									run.Gate = func(string) { sc.gate(hi) }
								}
								return run
							}
							if len(op.Texts) > 0 {
								parse := p.NewTextParser()
								for _, tx := range op.Texts[hi] {
									run := mk()
									parse([]byte(tx), run)
									runs = append(runs, run.Events)
								}
							} else {
								parse := p.NewParser()
								for _, in := range op.Histories[hi] {
									run := mk()
									run.FailAt = in.FailAt
									parse(in, run)
									runs = append(runs, run.Events)
								}
							}
							r.Runs[hi] = runs
						}
					}(hi)
				}
				wg.Wait()
			} else {
				for hi, h := range op.Histories {
					parse := p.NewParser()
					for ii, in := range h {
						fmt.Printf("@@PARSE %d %d %d\n", oi, hi, ii)
						run := vlog.NewRun()
						run.FailAt = in.FailAt
						// watchdog: a Parse that neither returns nor emits events (a silent
						// reduce loop) ends the process with a marker the harness understands
						done := make(chan struct{})
						go func() {
							select {
							case <-done:
							case <-time.After(20 * time.Second):
								fmt.Printf("@@EV {\"ev\":\"hang\"}\n@@HANG %d %d %d\n", oi, hi, ii)
								os.Exit(3)
							}
						}()
						parse(in, run)
						close(done)
					}
				}
				fmt.Printf("@@END\n")
			}
		}
		out = append(out, r)
	}
	ob, _ := json.Marshal(out)
	if err := os.WriteFile(os.Args[2], ob, 0o644); err != nil {
		panic(err)
	}
}
`

const parseDrvGlue = `package main

import (
	"fmt"

	perrors "scratch/%[1]s/errors"
	parser "scratch/%[1]s/parser"
	token "scratch/%[1]s/token"
	"scratch/vlog"
)

type scn_%[1]s struct {
	types []int
	i     int
	run   *vlog.Run
}

func (s *scn_%[1]s) Scan() *token.Token {
	if s.run.Gate != nil {
		s.run.Gate("scan")
	}
	s.i++
	t := &token.Token{Type: token.EOF, Lit: []byte{}}
	if s.i <= len(s.types) {
		t.Type = token.Type(s.types[s.i-1])
		t.Lit = []byte(fmt.Sprintf("L%%d", s.i))
	}
	t.Pos.Offset, t.Pos.Line, t.Pos.Column = s.i, 1, s.i
	s.run.RegisterToken(t, s.i)
	s.run.Emit(map[string]interface{}{"ev": "scan", "i": s.i, "t": int(t.Type)})
	return t
}

func init() {
	pkgs[%[1]q] = &Pkg{
		Dump:    func() interface{} { return parser.VerifDump() },
		TokId:   func(n int) string { return token.TokMap.Id(token.Type(n)) },
		TokType: func(s string) int { return int(token.TokMap.Type(s)) },
		NewParser: func() func(in Input, run *vlog.Run) {
			p := parser.NewParser()
			return func(in Input, run *vlog.Run) {
				defer func() {
					if r := recover(); r != nil {
						run.Emit(map[string]interface{}{"ev": "panic", "msg": fmt.Sprint(r)})
					}
				}()
				p.Context = run
				s := &scn_%[1]s{types: in.Toks, run: run}
				res, err := p.Parse(s)
				ev := map[string]interface{}{"ev": "ret", "ok": err == nil, "res": run.Describe(res)}
				if err != nil {
					d := map[string]interface{}{"k": "?"}
					if pe, ok := err.(*perrors.Error); ok {
						// render the error first (twice): rendering must not change the value
						msg := pe.Error()
						_ = pe.Error()
						d = run.Describe(pe)
						d["stacktop"] = pe.StackTop
						d["injected"] = pe.Err == vlog.ErrInjected
						d["msg"] = msg
						if pe.ErrorToken != nil {
							d["toktype"] = int(pe.ErrorToken.Type)
							d["toklit"] = string(pe.ErrorToken.Lit)
							d["tokoff"] = pe.ErrorToken.Pos.Offset
						}
					} else {
						d["msg"] = err.Error()
					}
					ev["err"] = d
				}
				run.Emit(ev)
			}
		},
	}
}
`

const parseDrvLexGlue = `package main

import (
	"fmt"

	perrors "scratch/%[1]s/errors"
	lexer "scratch/%[1]s/lexer"
	parser "scratch/%[1]s/parser"
	token "scratch/%[1]s/token"
	"scratch/vlog"
)

type lexscn_%[1]s struct {
	l   *lexer.Lexer
	i   int
	run *vlog.Run
}

func (s *lexscn_%[1]s) Scan() *token.Token {
	if s.run.Gate != nil {
		s.run.Gate("scan")
	}
	s.i++
	t := s.l.Scan()
	s.run.RegisterToken(t, s.i)
	s.run.Emit(map[string]interface{}{"ev": "scan", "i": s.i, "t": int(t.Type), "lit": string(t.Lit), "off": t.Pos.Offset, "line": t.Pos.Line, "col": t.Pos.Column})
	return t
}

func init() {
	pkgs[%[1]q].NewTextParser = func() func(text []byte, run *vlog.Run) {
		p := parser.NewParser()
		return func(text []byte, run *vlog.Run) {
			defer func() {
				if r := recover(); r != nil {
					run.Emit(map[string]interface{}{"ev": "panic", "msg": fmt.Sprint(r)})
				}
			}()
			p.Context = run
			res, err := p.Parse(&lexscn_%[1]s{l: lexer.NewLexer(text), run: run})
			ev := map[string]interface{}{"ev": "ret", "ok": err == nil, "res": run.Describe(res)}
			if err != nil {
				d := map[string]interface{}{"k": "?"}
				if pe, ok := err.(*perrors.Error); ok {
					d = run.Describe(pe)
					d["injected"] = pe.Err == vlog.ErrInjected
					d["msg"] = pe.Error()
					if pe.ErrorToken != nil {
						d["toktype"] = int(pe.ErrorToken.Type)
					}
				}
				ev["err"] = d
			}
			run.Emit(ev)
		}
	}
}
`

type parseInput struct {
	Toks   []int `json:"toks"`
	FailAt int   `json:"failat"`
}

type parseOp struct {
	Op         string         `json:"op"`
	G          string         `json:"g"`
	Names      []string       `json:"names,omitempty"`
	NIds       int            `json:"nids,omitempty"`
	Histories  [][]parseInput `json:"histories,omitempty"`
	Concurrent bool           `json:"concurrent,omitempty"`
	Repeat     int            `json:"repeat,omitempty"`
	Schedule   []int          `json:"schedule,omitempty"`
	Texts      [][]string     `json:"texts,omitempty"`
}

type realEntry struct {
	K string `json:"k"`
	N int    `json:"n"`
}

type realProd struct {
	Id     string `json:"id"`
	NTType int    `json:"nttype"`
	Index  int    `json:"index"`
	NSym   int    `json:"nsym"`
	Str    string `json:"str"`
}

type realTables struct {
	NStates int           `json:"nstates"`
	NCols   int           `json:"ncols"`
	Act     [][]realEntry `json:"act"`
	Rec     []bool        `json:"rec"`
	Goto    [][]int       `json:"goto"`
	PTab    []realProd    `json:"ptab"`
}

type parseRes struct {
	G      string                       `json:"g"`
	Err    string                       `json:"err"`
	Tables *realTables                  `json:"tables"`
	TokId  []string                     `json:"tokid"`
	TypeOf []int                        `json:"typeof"`
	Runs   [][][]map[string]interface{} `json:"runs"`
}

type ParseDriver struct {
	m   *Module
	Bin string
	seq int
	// Race: excerpt of the race detector's report of the last run ("" if none)
	Race string
	// Hung: the last run was ended by the watchdog because a Parse did not return
	Hung bool
}

// withLexGlue: set before BuildParseDriver to also link the generated lexers (text parsing)
var withLexGlue = false

// installVlog writes the logging runtime into the scratch module.
func (m *Module) installVlog() {
	mustWrite(filepath.Join(m.Dir, "vlog", "vlog.go"), []byte(vlogSrc))
}

// BuildParseDriver compiles the driver for the given grammar sub-directories (each must
// contain generated parser, token and errors packages).
func (m *Module) BuildParseDriver(name string, subs []string, extra ...string) (*ParseDriver, string) {
	m.installVlog()
	dir := filepath.Join(m.Dir, name)
	os.RemoveAll(dir)
	mustWrite(filepath.Join(dir, "main.go"), []byte(parseDrvMain))
	for _, s := range subs {
		mustWrite(filepath.Join(m.Dir, s, "parser", "verif_dump.go"), []byte(parseDumpSrc))
		mustWrite(filepath.Join(dir, "glue_"+s+".go"), []byte(fmt.Sprintf(parseDrvGlue, s)))
		if withLexGlue {
			mustWrite(filepath.Join(dir, "gluelex_"+s+".go"), []byte(fmt.Sprintf(parseDrvLexGlue, s)))
		}
	}
	bin := filepath.Join(dir, "drv")
	out, ok := m.Build(name, bin, extra...)
	if !ok {
		return nil, out
	}
	return &ParseDriver{m: m, Bin: bin}, ""
}

func (d *ParseDriver) Run(ops []parseOp) ([]parseRes, string) {
	d.m.c.mu.Lock()
	d.seq++
	n := d.seq
	d.m.c.mu.Unlock()
	in := filepath.Join(filepath.Dir(d.Bin), fmt.Sprintf("ops%d.json", n))
	out := filepath.Join(filepath.Dir(d.Bin), fmt.Sprintf("res%d.json", n))
	mustWrite(in, mustJSON(ops))
	r := runCmd(cmdOpts{Dir: filepath.Dir(d.Bin), Timeout: 15 * time.Minute}, d.Bin, in, out)
	d.Race = ""
	d.Hung = false
	if k := strings.Index(r.Out, "WARNING: DATA RACE"); k >= 0 {
		// the race detector reports and exits with status 66 after main has written the results
		end := k + 3000
		if end > len(r.Out) {
			end = len(r.Out)
		}
		d.Race = r.Out[k:end]
	} else if r.Code == 3 && strings.Contains(r.Stdout, "@@HANG") {
		// a Parse did not return: the events up to the hang are on stdout, the result file is missing
		d.Hung = true
		return nil, r.Stdout
	} else if r.Code != 0 {
		infra("parser driver failed (code %d, timeout %v):\n%s", r.Code, r.TimedOut, tail(r.Out, 30))
	}
	b, err := os.ReadFile(out)
	if err != nil {
		infra("parser driver: %v", err)
	}
	var res []parseRes
	if err := json.Unmarshal(b, &res); err != nil {
		infra("parser driver output: %v", err)
	}
	os.Remove(in)
	os.Remove(out)
	return res, r.Stdout
}

var reDbgParser = regexp.MustCompile(`^S(\d+) (.*)\((\d+),(.*)\) (accept\(0\)|shift:(\d+)|reduce:(\d+)\(.*)$`)

// splitParseStdout splits the driver's stdout into the event lists of the individual Parse
// calls, keyed by (op, history, input). Lines of -debug_parser become "step" events.
func splitParseStdout(stdout string) map[[3]int][]map[string]any {
	res := map[[3]int][]map[string]any{}
	var key [3]int
	have := false
	lines := strings.Split(stdout, "\n")
	for i := 0; i < len(lines); i++ {
		l := lines[i]
		switch {
		case strings.HasPrefix(l, "@@PARSE "):
			fmt.Sscanf(l, "@@PARSE %d %d %d", &key[0], &key[1], &key[2])
			res[key] = []map[string]any{}
			have = true
		case strings.HasPrefix(l, "@@EV ") && have:
			var ev map[string]any
			if json.Unmarshal([]byte(l[5:]), &ev) == nil {
				res[key] = append(res[key], ev)
			}
		case l == "@@END":
			have = false
		case have && strings.HasPrefix(l, "S"):
			// a -debug_parser line; a reduce line may span several lines because the
			// production text contains the action; only its head is needed
			if m := reDbgParser.FindStringSubmatch(l); m != nil {
				ev := map[string]any{"ev": "step", "top": atoi(m[1]), "t": atoi(m[3])}
				switch {
				case m[5] == "accept(0)":
					ev["k"], ev["n"] = "accept", 0
				case m[6] != "":
					ev["k"], ev["n"] = "shift", atoi(m[6])
				default:
					ev["k"], ev["n"] = "reduce", atoi(m[7])
				}
				res[key] = append(res[key], ev)
			}
		}
	}
	return res
}
