package main

import (
	"bytes"
	"fmt"
	"math/rand"
	"regexp"
	"time"
)

// synInput: one scripted Parse call: abstract terminals (2.. = grammar terminals, 0 = INVALID)
type synInput struct {
	Toks   []int
	FailAt int
}

// synHistory: Parse calls made on ONE parser object, in order.
type synHistory struct {
	Case   *SynCase
	CaseIx int // index in the list given to the TLC batch
	Inputs []synInput
	Events [][]map[string]any // per Parse call
}

func (cs *SynCase) realType(t int) int {
	if t == 0 {
		return 0
	}
	return cs.Col[t-1]
}

// termOfName maps a token name printed by the generated code to the abstract terminal.
func (cs *SynCase) termOfName(n string) int {
	if len(cs.TokId) > 1 && n == cs.TokId[1] {
		return 1
	}
	for i, t := range cs.G.Terms {
		if t == n {
			return i + 2
		}
	}
	return -1
}

// convertDesc rewrites expected-token names inside attribute descriptions to terminal ids.
func (cs *SynCase) convertDesc(d map[string]any) {
	if d == nil {
		return
	}
	if exp, ok := d["exp"].([]any); ok {
		ids := []int{}
		for _, e := range exp {
			ids = append(ids, cs.termOfName(fmt.Sprint(e)))
		}
		d["exp"] = ids
	}
	if syms, ok := d["syms"].([]any); ok {
		for _, s := range syms {
			if m, ok := s.(map[string]any); ok {
				cs.convertDesc(m)
			}
		}
	} else if d["k"] == "e" {
		d["syms"] = []any{}
	}
	if d["k"] == "e" {
		if _, ok := d["exp"]; !ok {
			d["exp"] = []int{}
		}
	}
}

// recordSynTraces runs the histories on the real parsers and attaches the recorded events.
// A Parse that does not return is ended by the driver's watchdog; its trace ends with a "hang"
// event (which no model action matches) and the histories not yet run are run in a new process.
func (c *Ctx) recordSynTraces(b *SynBatch, hs []*synHistory) {
	pending := hs
	for round := 0; round < 6 && len(pending) > 0; round++ {
		pending = c.recordSynTracesOnce(b, pending)
	}
	for _, h := range pending {
		// never run because earlier parses kept hanging: leave a marker trace
		h.Events = nil
		for range h.Inputs {
			h.Events = append(h.Events, []map[string]any{{"ev": "notrun"}})
		}
	}
}

var reHang = regexp.MustCompile(`(?m)^@@HANG (\d+) (\d+) (\d+)$`)

func (c *Ctx) recordSynTracesOnce(b *SynBatch, hs []*synHistory) []*synHistory {
	byCase := map[*SynCase][]*synHistory{}
	var order []*SynCase
	for _, h := range hs {
		if _, ok := byCase[h.Case]; !ok {
			order = append(order, h.Case)
		}
		byCase[h.Case] = append(byCase[h.Case], h)
	}
	var ops []parseOp
	for _, cs := range order {
		op := parseOp{Op: "parse", G: cs.Sub}
		for _, h := range byCase[cs] {
			var ins []parseInput
			for _, in := range h.Inputs {
				pi := parseInput{FailAt: in.FailAt, Toks: []int{}}
				for _, t := range in.Toks {
					pi.Toks = append(pi.Toks, cs.realType(t))
				}
				ins = append(ins, pi)
			}
			op.Histories = append(op.Histories, ins)
		}
		ops = append(ops, op)
	}
	_, stdout := b.Drv.Run(ops)
	hung := [3]int{-1, -1, -1}
	if b.Drv.Hung {
		if m := reHang.FindStringSubmatch(stdout); m != nil {
			hung = [3]int{atoi(m[1]), atoi(m[2]), atoi(m[3])}
		}
		c.Add("parses_ended_by_watchdog", 1)
	}
	evs := splitParseStdout(stdout)
	var notRun []*synHistory
	for oi, cs := range order {
		for hi, h := range byCase[cs] {
			if hung[0] >= 0 && (oi > hung[0] || oi == hung[0] && hi > hung[1]) {
				notRun = append(notRun, h)
				continue
			}
			h.Events = nil
			for ii := range h.Inputs {
				es := evs[[3]int{oi, hi, ii}]
				if oi == hung[0] && hi == hung[1] && ii > hung[2] {
					es = []map[string]any{{"ev": "notrun"}}
				}
				for _, e := range es {
					if args, ok := e["args"].([]any); ok {
						for _, a := range args {
							if m, ok := a.(map[string]any); ok {
								cs.convertDesc(m)
							}
						}
					}
					if m, ok := e["res"].(map[string]any); ok {
						cs.convertDesc(m)
					}
					if m, ok := e["err"].(map[string]any); ok {
						cs.convertDesc(m)
						for _, k := range []string{"injected", "toktype"} {
							if _, ok := m[k]; !ok {
								m[k] = -1
							}
						}
					}
				}
				h.Events = append(h.Events, es)
			}
		}
	}
	return notRun
}

// traceLines renders the histories as ndjson for LRTrace.tla.
func synTraceLines(hs []*synHistory, dbg bool, gmap map[int]int) ([]byte, []int) {
	var buf bytes.Buffer
	var ends []int // cumulative event count after each history
	n := 0
	emit := func(e map[string]any) {
		buf.Write(mustJSON(e))
		buf.WriteByte('\n')
		n++
	}
	for k, h := range hs {
		// the -debug_parser output is free text and may be reworded: when no line of a history has
		// the expected shape, the history is validated without the per-step events
		hdbg := dbg
		if dbg {
			steps := 0
			for _, es := range h.Events {
				for _, e := range es {
					if e["ev"] == "step" {
						steps++
					}
				}
			}
			if steps == 0 {
				hdbg = false
			}
		}
		emit(map[string]any{"ev": "new", "g": gmap[h.CaseIx] + 1, "id": k + 1, "dbg": hdbg})
		for ii, in := range h.Inputs {
			toks := in.Toks
			if toks == nil {
				toks = []int{}
			}
			emit(map[string]any{"ev": "parse", "input": toks, "failat": in.FailAt})
			for _, e := range h.Events[ii] {
				if !hdbg && e["ev"] == "step" {
					continue
				}
				emit(e)
			}
		}
		ends = append(ends, n)
	}
	return buf.Bytes(), ends
}

// validateSynTraces validates recorded histories against LRParse (over the real tables, or
// over the canonical LR(1) tables when ideal is set). Returns the rejected histories with
// the model state at the point of rejection.
func (c *Ctx) validateSynTraces(cases []*SynCase, hsAll []*synHistory, ideal, dbg bool) []*synHistory {
	// histories that were never run (the driver was ended by the watchdog again and again before
	// their turn) say nothing: they are counted, not validated
	var hs []*synHistory
	for _, h := range hsAll {
		if len(h.Events) > 0 && len(h.Events[0]) == 1 && h.Events[0][0]["ev"] == "notrun" {
			c.Add("histories_not_run_after_repeated_hangs", 1)
			continue
		}
		hs = append(hs, h)
	}
	if len(hs) == 0 {
		return nil
	}
	// large sets of histories are validated in parallel chunks (one TLC each, one worker each:
	// a trace specification is a line, not a graph); each chunk sees only the tables it needs
	nchunks := len(hs)/600 + 1
	if nchunks > 8 {
		nchunks = 8
	}
	if nchunks <= 1 {
		return c.validateSynChunk(cases, hs, ideal, dbg)
	}
	per := (len(hs) + nchunks - 1) / nchunks
	res := make([][]*synHistory, nchunks)
	parallel(nchunks, func(k int) {
		lo, hi := k*per, min((k+1)*per, len(hs))
		if lo < hi {
			res[k] = c.validateSynChunk(cases, hs[lo:hi], ideal, dbg)
		}
	})
	var rejected []*synHistory
	for _, r := range res {
		rejected = append(rejected, r...)
	}
	return rejected
}

func (c *Ctx) validateSynChunk(cases []*SynCase, hs []*synHistory, ideal, dbg bool) []*synHistory {
	gmap := map[int]int{}
	var entries []any
	for _, h := range hs {
		if _, ok := gmap[h.CaseIx]; !ok {
			gmap[h.CaseIx] = len(entries)
			entries = append(entries, cases[h.CaseIx].productEntry())
		}
	}
	batch := mustJSON(entries)
	cfg := "LRTrace_real.cfg"
	if ideal {
		cfg = "LRTrace_ideal.cfg"
	}
	var rejected []*synHistory
	live := append([]*synHistory{}, hs...)
	for round := 0; round < 8 && len(live) > 0; round++ {
		lines, ends := synTraceLines(live, dbg, gmap)
		r := c.RunTLC(TLCOpts{Module: "LRTrace", Cfg: cfg, Workers: 1, Timeout: 30 * time.Minute,
			Files: map[string][]byte{"batch.json": batch, "trace.ndjson": lines}})
		c.Add("states", r.Distinct)
		c.Add("transitions", r.Generated)
		if r.OK {
			c.Add("traces_validated_against_impl", int64(len(live)))
			return rejected
		}
		if (r.ErrKind != "invariant" && r.ErrKind != "deadlock") || len(r.Trace) == 0 {
			infra("LRTrace: TLC failed (%s) dir=%s\n%s", r.ErrKind, r.Dir, tail(filterTLC(r.Out), 40))
		}
		last := r.Trace[len(r.Trace)-1]
		l := int(last["l"].(float64))
		target := l
		if okv, _ := last["ok"].(bool); !okv {
			target = l - 1
		}
		found := -1
		for k, e := range ends {
			if target <= e {
				found = k
				break
			}
		}
		if found < 0 {
			infra("LRTrace: cannot locate the rejected trace (l=%d)", l)
		}
		c.Add("traces_validated_against_impl", int64(found))
		rejected = append(rejected, live[found])
		live = live[found+1:]
	}
	return rejected
}

// ---------------------------------------------------------------------------------------
// input families

// sentences derives random sentences of the grammar (terminal ids), at most maxLen long.
func (g *SynGrammar) randomSentence(rng *rand.Rand, maxLen int) ([]int, bool) {
	return g.randomSentenceD(rng, maxLen, 6, 0)
}

// randomSentenceD: a random sentence whose derivation may be maxDepth deep; with probability
// pRec an alternative that contains a nonterminal is preferred while the length budget lasts
// (deep derivations: long recursive chains, cascades of reductions).
func (g *SynGrammar) randomSentenceD(rng *rand.Rand, maxLen, maxDepth int, pRec float64) ([]int, bool) {
	return g.randomSentenceP(rng, maxLen, maxDepth, pRec, -1, 0)
}

// randomSentencePump: one directly recursive alternative (its head occurs in its body) is
// applied k times in a row before anything else happens to that nonterminal: a chain of k
// nested uses (left, right or middle recursion), longer than any table of the parser.
func (g *SynGrammar) randomSentencePump(rng *rand.Rand, k int) ([]int, bool) {
	var rec []int
	for pi, p := range g.Prods {
		for _, s := range p.Body {
			if s.NT && s.Idx == p.Head {
				rec = append(rec, pi)
				break
			}
		}
	}
	if len(rec) == 0 {
		return nil, false
	}
	return g.randomSentenceP(rng, 16, 6+k, 0, rec[rng.Intn(len(rec))], k)
}

func (g *SynGrammar) randomSentenceP(rng *rand.Rand, maxLen, maxDepth int, pRec float64, pump, pumpN int) ([]int, bool) {
	pr := g.productive()
	if !pr[0] {
		return nil, false
	}
	// minimal derivation length per nonterminal, to steer towards termination
	minLen := make([]int, len(g.NTs))
	minProd := make([]int, len(g.NTs)) // the production that first reached minLen: well-founded
	for i := range minLen {
		minLen[i] = 1 << 20
		minProd[i] = -1
	}
	for again := true; again; {
		again = false
		for pi, p := range g.Prods {
			n := 0
			for _, s := range p.Body {
				if s.NT {
					n += minLen[s.Idx]
				} else if s.Idx == g.errTerm() {
					n += 1 << 20
				} else {
					n++
				}
				if n > 1<<20 {
					n = 1 << 20
				}
			}
			if n < minLen[p.Head] {
				minLen[p.Head] = n
				minProd[p.Head] = pi
				again = true
			}
		}
	}
	if minProd[0] < 0 {
		return nil, false
	}
	// reach[a][b]: b occurs in some sentential form derived from a (reflexive)
	n := len(g.NTs)
	reach := make([][]bool, n)
	for i := range reach {
		reach[i] = make([]bool, n)
		reach[i][i] = true
	}
	if pRec > 0 {
		for again := true; again; {
			again = false
			for _, p := range g.Prods {
				for _, s := range p.Body {
					if !s.NT {
						continue
					}
					for b := 0; b < n; b++ {
						if reach[s.Idx][b] && !reach[p.Head][b] {
							reach[p.Head][b] = true
							again = true
						}
					}
				}
			}
		}
	}
	var out []int
	budget := maxLen
	var expand func(nt int, depth int) bool
	expand = func(nt int, depth int) bool {
		var cands []SynProd
		for _, p := range g.Prods {
			if p.Head != nt {
				continue
			}
			ok := true
			for _, s := range p.Body {
				if s.NT && !pr[s.Idx] {
					ok = false
				}
				if !s.NT && s.Idx == g.errTerm() {
					ok = false
				}
			}
			if ok {
				cands = append(cands, p)
			}
		}
		if len(cands) == 0 {
			return false
		}
		var p SynProd
		if pump >= 0 && pumpN > 0 && g.Prods[pump].Head == nt {
			pumpN--
			p = g.Prods[pump]
			for _, s := range p.Body {
				if (s.NT && !pr[s.Idx]) || (!s.NT && s.Idx == g.errTerm()) {
					return false
				}
			}
		} else if depth > maxDepth || len(out) >= budget {
			if minProd[nt] < 0 || depth > maxDepth+200 {
				return false
			}
			p = g.Prods[minProd[nt]]
		} else {
			p = cands[rng.Intn(len(cands))]
			if pRec > 0 && rng.Float64() < pRec {
				// alternatives through which the nonterminal comes back to itself
				var rec []SynProd
				for _, q := range cands {
					for _, s := range q.Body {
						if s.NT && reach[s.Idx][nt] {
							rec = append(rec, q)
							break
						}
					}
				}
				if len(rec) > 0 {
					p = rec[rng.Intn(len(rec))]
				}
			}
		}
		for _, s := range p.Body {
			if s.NT {
				if !expand(s.Idx, depth+1) {
					return false
				}
			} else {
				out = append(out, g.termID(s.Idx))
			}
			if len(out) > 4*maxLen+20 && pump < 0 {
				return false
			}
			if len(out) > 220 {
				return false // every token costs several events; one Parse is cut off at MaxEvents
			}
		}
		return true
	}
	if !expand(0, 0) {
		return nil, false
	}
	return out, true
}

// synInputs: all token strings up to length k over the grammar's terminals (capped), random
// sentences and single-token mutations of them.
func synInputs(rng *rand.Rand, g *SynGrammar, k, cap, nSent int, withInvalid bool) [][]int {
	var alpha []int
	for i := range g.Terms {
		if i == g.errTerm() || g.Terms[i] == "empty" {
			continue
		}
		alpha = append(alpha, g.termID(i))
	}
	var all [][]int
	var rec func(p []int)
	rec = func(p []int) {
		all = append(all, append([]int{}, p...))
		if len(p) == k {
			return
		}
		for _, a := range alpha {
			rec(append(p, a))
		}
	}
	if pow(len(alpha), k) <= 6*cap {
		rec(nil)
		rng.Shuffle(len(all), func(i, j int) { all[i], all[j] = all[j], all[i] })
		if len(all) > cap {
			all = all[:cap]
		}
	} else {
		all = append(all, []int{})
		for i := 0; i < cap; i++ {
			n := 1 + rng.Intn(k+1)
			p := make([]int, n)
			for j := range p {
				p[j] = alpha[rng.Intn(len(alpha))]
			}
			all = append(all, p)
		}
	}
	// two deep sentences: recursion chains longer than the parser has states
	for i := 0; i < 2; i++ {
		if s, ok := g.randomSentenceD(rng, 40+rng.Intn(40), 90, 0.95); ok && len(s) > 24 {
			all = append(all, s)
		}
	}
	// and two pumped ones
	for i := 0; i < 2; i++ {
		if s, ok := g.randomSentencePump(rng, 36); ok {
			all = append(all, s)
		}
	}
	for i := 0; i < nSent; i++ {
		s, ok := g.randomSentence(rng, 4+rng.Intn(20))
		if !ok {
			break
		}
		all = append(all, s)
		if len(s) > 0 && len(alpha) > 0 {
			// mutations: substitution, deletion, insertion, truncation
			m := append([]int{}, s...)
			j := rng.Intn(len(m))
			switch rng.Intn(4) {
			case 0:
				m[j] = alpha[rng.Intn(len(alpha))]
			case 1:
				m = append(m[:j], m[j+1:]...)
			case 2:
				m = append(m[:j], append([]int{alpha[rng.Intn(len(alpha))]}, m[j:]...)...)
			case 3:
				m = m[:j]
			}
			if withInvalid && rng.Intn(6) == 0 && len(m) > 0 {
				m[rng.Intn(len(m))] = 0
			}
			all = append(all, m)
		}
	}
	return all
}

func (g *SynGrammar) inputString(toks []int) string {
	s := ""
	for i, t := range toks {
		if i > 0 {
			s += " "
		}
		if t == 0 {
			s += "<INVALID>"
		} else {
			s += g.symName(t)
		}
	}
	return "[" + s + "]"
}
