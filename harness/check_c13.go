package main

import (
	"encoding/json"
	"fmt"
	"math/rand"
	"os"
	"path/filepath"
	"strconv"
	"strings"
	"time"
	"unicode/utf8"
)

func init() {
	register("C13", checkC13)
	replayers["respell"] = replayRespell
}

type spellTable struct {
	Chars   map[int][]string
	Layouts []string
}

// spellings asks TLC (GoccLex.tla) for every spelling of the given code points.
func (c *Ctx) spellings(values []int) *spellTable {
	if values == nil {
		values = []int{}
	}
	r := c.RunTLC(TLCOpts{Module: "GoccLex", Cfg: "LitConv_quick.cfg", Workers: 1, Timeout: 20 * time.Minute, Files: map[string][]byte{"values.json": mustJSON(values)}})
	if !r.OK {
		infra("GoccLex.tla failed (%s): a spelling does not denote its code point under Go's rule, or TLC failed\n%s", r.ErrKind, tail(filterTLC(r.Out), 30))
	}
	b, err := os.ReadFile(filepath.Join(r.Dir, "spellings.json"))
	if err != nil {
		infra("GoccLex wrote no spellings")
	}
	var raw struct {
		Chars   [][]json.RawMessage `json:"chars"`
		Layouts []string            `json:"layouts"`
	}
	if err := json.Unmarshal(b, &raw); err != nil {
		infra("spellings.json: %v", err)
	}
	t := &spellTable{Chars: map[int][]string{}, Layouts: raw.Layouts}
	n := 0
	for _, e := range raw.Chars {
		var v int
		var sps [][]int
		json.Unmarshal(e[0], &v)
		json.Unmarshal(e[1], &sps)
		for _, sp := range sps {
			bs := make([]byte, len(sp))
			for i, x := range sp {
				bs[i] = byte(x)
			}
			t.Chars[v] = append(t.Chars[v], string(bs))
			n++
		}
	}
	c.Add("states", int64(n))
	c.Add("transitions", int64(n))
	c.Set("char_spellings_from_tlc", n)
	return t
}

// charValue decodes a character literal rendered by this harness.
func charValue(lit string) (int, bool) {
	v, _, _, err := strconv.UnquoteChar(lit[1:len(lit)-1], '\'')
	if err != nil {
		return 0, false
	}
	return int(v), true
}

func isWordTok(t gtok) bool {
	switch t.Kind {
	case "tokId", "prodId", "regDefId", "ignoredTokId", "error", "empty":
		return true
	}
	return false
}

// respell renders the token list with the spelling and layout choices drawn from rng.
func respell(rng *rand.Rand, ts []gtok, st *spellTable) string {
	var sb strings.Builder
	lay := func(prev, next *gtok) string {
		canFuse := prev != nil && next != nil && (isWordTok(*prev) && isWordTok(*next) ||
			// punctuation pairs that would form another token or a comment opener
			prev.Text == "<" || next.Text == "<" || prev.Text == "/" || next.Text == "/" || prev.Text == "-" && next.Kind == "char_lit" && false)
		if !canFuse && rng.Intn(4) == 0 {
			return ""
		}
		return st.Layouts[rng.Intn(len(st.Layouts))]
	}
	var prev *gtok
	for i := range ts {
		t := ts[i]
		sb.WriteString(lay(prev, &ts[i]))
		switch t.Kind {
		case "char_lit":
			if v, ok := charValue(t.Text); ok {
				opts := append([]string{}, st.Chars[v]...)
				if v >= 128 && utf8.ValidRune(rune(v)) {
					opts = append(opts, "'"+string(rune(v))+"'") // the character itself (outside the ASCII model)
				}
				if len(opts) > 0 {
					sb.WriteString(opts[rng.Intn(len(opts))])
					break
				}
			}
			sb.WriteString(t.Text)
		case "string_lit":
			content := t.Text[1 : len(t.Text)-1]
			if !strings.ContainsAny(content, "\"`\n") && plainEscapes(content) && (rng.Intn(2) == 0 || strings.Contains(content, "\\")) {
				if t.Text[0] == '"' {
					sb.WriteString("`" + content + "`")
				} else {
					sb.WriteString("\"" + content + "\"")
				}
			} else {
				sb.WriteString(t.Text)
			}
		default:
			sb.WriteString(t.Text)
		}
		prev = &ts[i]
	}
	if rng.Intn(4) == 0 {
		// a line comment ended by the end of the file
		sb.WriteString([]string{" // end", "\n//", "\n// the end */ /*"}[rng.Intn(3)])
	} else {
		sb.WriteString(st.Layouts[rng.Intn(len(st.Layouts))])
	}
	return sb.String()
}

// plainEscapes: every backslash of the content starts one of the escapes \\ \n \t, which both
// quoting styles of gocc's string literals keep as they are written (the content of a literal
// is its text between the quotes; "..." only needs the escape to know where it ends).
func plainEscapes(content string) bool {
	for i := 0; i < len(content); i++ {
		if content[i] == '\\' {
			if i+1 >= len(content) || !strings.ContainsRune("\\nt", rune(content[i+1])) {
				return false
			}
			i++
		}
	}
	return true
}

func checkC13(c *Ctx) {
	c.Level = "model_checking"
	c.Set("rule", "GoccLex.tla defines every ASCII spelling of a code point (character, \\x, octal, \\u, \\U in both cases, named escape) and the layouts between tokens; TLC checks that each spelling denotes the code point under Go's literal rule and emits the spelling table; seeded respelling plans (per token a spelling, per gap a layout or none where tokens cannot fuse, either quoting style for string literals without quotes whose backslashes are plain escapes, a line comment ended by the end of the file) are applied to generated grammars and the real gocc must produce byte-identical packages and the same exit status for the canonical and the respelled file. distinct_nontrivial counts distinct respelled files")
	c.Assume("respelling is applied to grammar texts rendered and tokenised by the harness itself; the character itself as the spelling of a non-ASCII code point is added by the harness (the TLA+ model spells literals in ASCII)")
	c.scannerReplay()
	rng := rand.New(rand.NewSource(c.Seed))
	type base struct {
		text string
		toks []gtok
	}
	var bases []base
	values := map[int]bool{}
	nb := c.pick(24, 400)
	for i := 0; i < nb; i++ {
		var text string
		if i%2 == 0 {
			text = genLexGrammar(rng, lexGenOpts{MaxToks: 4, MaxIgn: 1, MaxDefs: 2, MaxLits: 2, Depth: 3}).render()
		} else {
			o := c02Opts
			o.Actions = false
			g := genSynGrammar(rng, o)
			for pi := range g.Prods {
				if rng.Intn(3) == 0 {
					g.Prods[pi].Action = "X[0], nil"
				}
			}
			// some literals with backslashes in their content
			bs := []string{"\\\\", "a\\nb", "\\t", "x\\\\y"}
			for k := range g.Terms {
				if g.IsLit[k] {
					// the first literal of every grammar (and a quarter of the others)
					cand, dup := bs[(i/2+k)%len(bs)], false
					for _, t := range g.Terms {
						dup = dup || t == cand
					}
					if !dup {
						g.Terms[k] = cand
					}
					if rng.Intn(4) != 0 {
						break
					}
				}
			}
			text = g.render()
		}
		ts := tokenizeGrammar(text)
		if ts == nil {
			continue
		}
		ok := true
		for _, t := range ts {
			if t.Kind == "char_lit" {
				v, good := charValue(t.Text)
				if !good {
					ok = false
				}
				values[v] = true
			}
		}
		if ok {
			bases = append(bases, base{renderTokens(ts), ts})
		}
	}
	var vals []int
	for v := range values {
		vals = append(vals, v)
	}
	st := c.spellings(vals)
	plans := c.pick(6, 40)
	mA := c.NewModule("c13a")
	type job struct {
		b     int
		text  string
		ra    GoccRun
		hash  string
		files []string
	}
	canon := make([]job, len(bases))
	parallel(len(bases), func(i int) {
		sub := fmt.Sprintf("g%03d", i)
		canon[i] = job{b: i, text: bases[i].text}
		canon[i].ra = mA.GoccExt(sub, "g.bnf", []byte(bases[i].text), 60*time.Second)
		canon[i].hash, canon[i].files = hashTree(filepath.Join(mA.Dir, sub))
	})
	var jobs []*job
	for i := range bases {
		for p := 0; p < plans; p++ {
			jobs = append(jobs, &job{b: i, text: respell(rng, bases[i].toks, st)})
		}
	}
	// each plan in its own module root so that the output directory has the same name
	roots := make([]*Module, plans)
	for p := range roots {
		roots[p] = c.NewModule(fmt.Sprintf("c13p%02d", p))
	}
	parallel(len(jobs), func(k int) {
		j := jobs[k]
		m := roots[k%plans]
		sub := fmt.Sprintf("g%03d", j.b)
		j.ra = m.GoccExt(sub, "g.bnf", []byte(j.text), 60*time.Second)
		j.hash, j.files = hashTree(filepath.Join(m.Dir, sub))
	})
	for _, j := range jobs {
		c.Add("evaluations", 1)
		c.Distinct(j.text)
		ca := canon[j.b]
		if ca.ra.TimedOut || j.ra.TimedOut {
			continue
		}
		if (ca.ra.Code != j.ra.Code || ca.hash != j.hash) && c.firstFor(ca.text) {
			c.Violation(Replay{Kind: "respell", What: fmt.Sprintf("canonical spelling: exit %d, files %v; respelled file: exit %d, files %v; packages identical: %v (%s)\n--- canonical\n%s--- respelled\n%s", ca.ra.Code, ca.files, j.ra.Code, j.files, ca.hash == j.hash, strings.TrimSpace(tail(j.ra.Out, 2)), indent(ca.text), indent(j.text)),
				Data: map[string]any{"canonical": ca.text, "respelled": j.text}})
		}
	}
	if len(jobs) > 0 {
		c.Sample(map[string]any{"canonical": canon[jobs[0].b].text, "respelled": jobs[0].text})
	}
}

func replayRespell(c *Ctx, r *Replay) (bool, string) {
	a, _ := r.Data["canonical"].(string)
	b, _ := r.Data["respelled"].(string)
	mA := c.NewModule("c13ra")
	mB := c.NewModule("c13rb")
	ra := mA.GoccExt("g000", "g.bnf", []byte(a), 60*time.Second)
	rb := mB.GoccExt("g000", "g.bnf", []byte(b), 60*time.Second)
	ha, _ := hashTree(filepath.Join(mA.Dir, "g000"))
	hb, _ := hashTree(filepath.Join(mB.Dir, "g000"))
	if ra.Code != rb.Code || ha != hb {
		return true, fmt.Sprintf("exit %d vs %d, packages identical: %v; %s", ra.Code, rb.Code, ha == hb, strings.TrimSpace(tail(rb.Out, 2)))
	}
	return false, "same exit status and byte-identical packages"
}

// scannerReplay: the reference tokenizer of GoccScan.tla (the documented token language over
// character classes, well-formed texts only) is evaluated by TLC on every text up to the bound
// and on texts composed of token fragments and layouts; the real front-end scanner must return
// exactly these token streams (kinds and extents) without counting an error.
func (c *Ctx) scannerReplay() {
	cfg := fmt.Sprintf("INIT Init\nNEXT Next\nCONSTANT MaxLen = %d\nCHECK_DEADLOCK FALSE\n", c.pick(3, 4))
	r := c.RunTLC(TLCOpts{Module: "GoccScan", Cfg: cfg, Workers: 1, Timeout: 40 * time.Minute})
	if !r.OK {
		infra("GoccScan.tla failed (%s)\n%s", r.ErrKind, tail(filterTLC(r.Out), 30))
	}
	tpath := filepath.Join(r.Dir, "scan.json")
	b, err := os.ReadFile(tpath)
	if err != nil {
		infra("GoccScan wrote no table")
	}
	var tab struct {
		Texts    []json.RawMessage `json:"texts"`
		Composed []json.RawMessage `json:"composed"`
		All      int               `json:"all"`
		NComp    int               `json:"ncomposed"`
	}
	json.Unmarshal(b, &tab)
	c.Add("states", int64(tab.All+tab.NComp))
	c.Add("transitions", int64(tab.All+tab.NComp))
	c.Set("scanner_reference", map[string]int{"texts_enumerated": tab.All, "well_formed": len(tab.Texts), "composed_enumerated": tab.NComp, "composed_well_formed": len(tab.Composed)})
	res := c.overlayTest("internal/frontend/scanner", map[string]string{"scanner_verif_test.go": "zz_scanner_verif_test.go"}, "TestVerifScanner", []string{"VERIF_SCAN_TABLE=" + tpath}, 20*time.Minute)
	for _, st := range linesWith(res.Out, "VERIF-STATS") {
		var n, m int
		fmt.Sscanf(st, "texts=%d mismatches=%d", &n, &m)
		c.Add("traces_validated_against_impl", int64(n))
		c.Add("evaluations", int64(n))
	}
	for _, mm := range linesWith(res.Out, "VERIF-MISMATCH") {
		var e struct {
			Text    string
			Classes []string
			Got     any
			Want    any
			Errors  int
		}
		json.Unmarshal([]byte(mm), &e)
		if c.firstFor("scan" + e.Text) {
			c.Violation(Replay{Kind: "scanner", What: fmt.Sprintf("the front-end scanner tokenises %q as %v (errors counted: %d); the documented token language gives %v", e.Text, e.Got, e.Errors, e.Want),
				Data: map[string]any{"classes": e.Classes, "want": e.Want}})
		}
	}
}

func init() {
	replayers["scanner"] = func(c *Ctx, r *Replay) (bool, string) {
		tab := map[string]any{"texts": []any{[]any{r.Data["classes"], r.Data["want"]}}, "composed": []any{}}
		tpath := filepath.Join(c.Scratch, "scan1.json")
		mustWrite(tpath, mustJSON(tab))
		res := c.overlayTest("internal/frontend/scanner", map[string]string{"scanner_verif_test.go": "zz_scanner_verif_test.go"}, "TestVerifScanner", []string{"VERIF_SCAN_TABLE=" + tpath}, 10*time.Minute)
		if mm := linesWith(res.Out, "VERIF-MISMATCH"); len(mm) > 0 {
			return true, mm[0]
		}
		return false, "token stream equals the reference"
	}
}
