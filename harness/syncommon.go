package main

import (
	"fmt"
	"regexp"
	"strconv"
	"strings"
	"time"
)

// SynCase is one grammar that went through the real gocc; when generation succeeded its
// parser is linked into a driver and its tables have been read out.
type SynCase struct {
	Sub      string
	G        *SynGrammar
	Text     string
	Abs      synAbs
	Flags    []string
	Run      GoccRun
	Reported int // number of conflicts gocc announced on stdout, -1 if it announced none
	Tables   *realTables
	TokId    []string
	Col      []int // Col[t-1] = real token number of abstract terminal t (t = 1 is the end marker)
	NTCol    []int // NTCol[j] = real NTType of abstract nonterminal nt+1+j (j = 0: S')
	Built    bool
}

type SynBatch struct {
	M     *Module
	Cases []*SynCase // all cases, including those gocc refused
	Drv   *ParseDriver
}

var reConflicts = regexp.MustCompile(`(?m)^(\d+) LR-1 conflicts`)

func reportedConflicts(out string) int {
	if m := reConflicts.FindStringSubmatch(out); m != nil {
		n, _ := strconv.Atoi(m[1])
		return n
	}
	return -1
}

// buildSynBatch runs gocc on every grammar (with the given flags), builds a driver for all
// that produced a complete set of packages and reads out their tables.
func (c *Ctx) buildSynBatch(tag string, gs []*SynGrammar, flags [][]string, buildArgs ...string) *SynBatch {
	return c.buildSynBatchWith(tag, gs, flags, func(i int) (string, synAbs) { return gs[i].render(), gs[i].abstract() }, buildArgs...)
}

func (c *Ctx) buildSynBatchWith(tag string, gs []*SynGrammar, flags [][]string, textOf func(i int) (string, synAbs), buildArgs ...string) *SynBatch {
	m := c.NewModule(tag)
	m.installVlog()
	b := &SynBatch{M: m}
	b.Cases = make([]*SynCase, len(gs))
	parallel(len(gs), func(i int) {
		sub := fmt.Sprintf("g%03d", i)
		text, abs := textOf(i)
		fl := flags[i%len(flags)]
		run := m.GoccExt(sub, "g.bnf", []byte(strings.ReplaceAll(text, "@@PKG@@", "scratch/"+sub)), 90*time.Second, fl...)
		b.Cases[i] = &SynCase{Sub: sub, G: gs[i], Text: text, Abs: abs, Flags: fl, Run: run, Reported: reportedConflicts(run.Out)}
	})
	var subs []string
	var live []*SynCase
	for _, cs := range b.Cases {
		if cs.Run.Code == 0 && !cs.Run.TimedOut && exists(m.Dir+"/"+cs.Sub+"/parser/parser.go") && exists(m.Dir+"/"+cs.Sub+"/token/token.go") {
			subs = append(subs, cs.Sub)
			live = append(live, cs)
		}
	}
	if len(subs) == 0 {
		return b
	}
	drv, out := m.BuildParseDriver("pdrv", subs, buildArgs...)
	if drv == nil {
		// find the packages that do not compile (C09's business), drop them, rebuild
		var good []*SynCase
		subs = nil
		for _, cs := range live {
			if o, ok := m.BuildPkgs("./" + cs.Sub + "/..."); ok {
				good = append(good, cs)
				subs = append(subs, cs.Sub)
			} else {
				c.noteReject(cs.Text, "generated code does not compile: "+tail(o, 6))
			}
		}
		live = good
		if len(subs) == 0 {
			return b
		}
		drv, out = m.BuildParseDriver("pdrv", subs, buildArgs...)
		if drv == nil {
			infra("parser driver does not compile:\n%s", tail(out, 40))
		}
	}
	b.Drv = drv
	var ops []parseOp
	for _, cs := range live {
		names := append([]string{}, cs.G.Terms...)
		ops = append(ops, parseOp{Op: "dump", G: cs.Sub, Names: names, NIds: len(names) + 4})
	}
	res, _ := drv.Run(ops)
	for i, cs := range live {
		cs.Built = true
		cs.Tables = res[i].Tables
		cs.TokId = res[i].TokId
		cs.Col = append([]int{1}, res[i].TypeOf...)
		// nonterminal columns by name, from the real production table
		cs.NTCol = make([]int, len(cs.G.NTs)+1)
		for j := range cs.NTCol {
			cs.NTCol[j] = -1
		}
		for _, p := range cs.Tables.PTab {
			if p.Id == "S'" {
				cs.NTCol[0] = p.NTType
			}
			for j, n := range cs.G.NTs {
				if p.Id == n {
					cs.NTCol[j+1] = p.NTType
				}
			}
		}
	}
	return b
}

func (b *SynBatch) built() []*SynCase {
	var out []*SynCase
	for _, cs := range b.Cases {
		if cs.Built {
			out = append(out, cs)
		}
	}
	return out
}

// productEntry is the JSON record LRProduct.tla / LRTrace.tla read.
func (cs *SynCase) productEntry() map[string]any {
	ptab := []map[string]int{}
	for _, p := range cs.Tables.PTab {
		ptab = append(ptab, map[string]int{"nttype": p.NTType, "nsym": p.NSym})
	}
	return map[string]any{
		"abs":      cs.Abs,
		"act":      cs.Tables.Act,
		"goto":     cs.Tables.Goto,
		"rec":      cs.Tables.Rec,
		"col":      cs.Col,
		"ntcol":    cs.NTCol,
		"ptab":     ptab,
		"ncols":    cs.Tables.NCols,
		"reported": cs.Reported,
		"sub":      cs.Sub,
	}
}

// sane checks that the name-based pairing of terminals and nonterminals with the real
// numbering worked (a failure is a C10-type disagreement and is reported by the caller).
func (cs *SynCase) pairingProblem() string {
	seen := map[int]int{}
	for t, c := range cs.Col {
		if t > 0 && c == 0 {
			return fmt.Sprintf("the generated token map does not know terminal %q", cs.G.Terms[t-1])
		}
		if o, dup := seen[c]; dup {
			return fmt.Sprintf("terminals %d and %d share token number %d", o, t, c)
		}
		seen[c] = t
		if c >= cs.Tables.NCols {
			return fmt.Sprintf("token number %d of terminal %d is outside the action rows (%d columns)", c, t, cs.Tables.NCols)
		}
	}
	for j, c := range cs.NTCol {
		if c < 0 {
			return fmt.Sprintf("no production of nonterminal #%d in the generated production table", j)
		}
	}
	if len(cs.Tables.PTab) != len(cs.Abs.Prods) {
		return fmt.Sprintf("generated production table has %d entries, the grammar %d productions", len(cs.Tables.PTab), len(cs.Abs.Prods))
	}
	return ""
}
