package main

import (
	"encoding/json"
	"fmt"
	"os"
	"strconv"
)

// tool: small helpers used while building known_findings.json
//
//	verif tool lexreplay <property> <curated index> <input (Go-quoted)> <pos 0|1> <resets>
func tool(args []string) {
	if len(args) == 0 {
		usage()
	}
	switch args[0] {
	case "lexreplay":
		if len(args) < 6 {
			usage()
		}
		idx, _ := strconv.Atoi(args[2])
		in, err := strconv.Unquote(args[3])
		if err != nil {
			fmt.Fprintln(os.Stderr, "input must be a Go-quoted string:", err)
			os.Exit(2)
		}
		resets, _ := strconv.Atoi(args[5])
		g := append(curatedLex(), kfLex()...)[idx]
		cs := &LexCase{G: g, Text: g.render(), Abs: g.abstract()}
		r := Replay{Property: args[1], Kind: "lex", What: "", Data: lexReplayData(cs, []byte(in), resets, args[4] == "1")}
		b, _ := json.MarshalIndent(r, "", " ")
		fmt.Println(string(b))
	case "synreplay":
		// verif tool synreplay <property> <kf index> <tokens as JSON list of abstract terminals>
		idx, _ := strconv.Atoi(args[2])
		g := kfSyn()[idx]
		var toks []int
		json.Unmarshal([]byte(args[3]), &toks)
		cs := &SynCase{G: g, Text: g.render(), Abs: g.abstract()}
		r := Replay{Property: args[1], Kind: "syn", Data: synReplayData(cs, []synInput{{Toks: toks}})}
		b, _ := json.MarshalIndent(r, "", " ")
		fmt.Println(string(b))
	case "synjson":
		gs := append(curatedSyn(), curatedErrSyn()...)
		fmt.Println(string(mustJSON(mcGrammarEntries(gs))))
	case "synbnf":
		idx, _ := strconv.Atoi(args[1])
		gs := append(curatedSyn(), curatedErrSyn()...)
		fmt.Print(gs[idx].render())
	default:
		usage()
	}
}

func init() {
	register("XREPO", func(c *Ctx) {
		for _, f := range repoGrammars() {
			fmt.Printf("%s: ", f.Path)
			if f.Why != "" {
				fmt.Printf("NOT READ: %s\n", f.Why)
				continue
			}
			if f.Lex != nil {
				ok, why := f.Lex.lexInDomain()
				fmt.Printf("lex: %d defs, %d lits, in domain: %v %s; ", len(f.Lex.Defs), len(f.Lex.Lits), ok, why)
			}
			if f.Syn != nil {
				fmt.Printf("syn: %d nonterminals, %d terminals, %d productions", len(f.Syn.NTs), len(f.Syn.Terms), len(f.Syn.Prods))
			}
			fmt.Println()
		}
	})
}
