package main

import (
	"bytes"
	"context"
	"crypto/sha256"
	"encoding/hex"
	"encoding/json"
	"fmt"
	"math/rand"
	"os"
	"os/exec"
	"path/filepath"
	"runtime"
	"sort"
	"strings"
	"sync"
	"time"
)

// Locations. /verif and /repo unless overridden (used when checking scratch worktrees).
var (
	verifRoot = envOr("VERIF_ROOT", "/verif")
	repoRoot  = envOr("VERIF_REPO", "/repo")
	// outRoot: where evidence and replay files go (redirected when a seeded change in a scratch
	// worktree is evaluated, so that the committed evidence is not overwritten)
	outRoot = envOr("VERIF_OUT", verifRoot)
)

func envOr(k, d string) string {
	if v := os.Getenv(k); v != "" {
		return v
	}
	return d
}

// infraError aborts a check with exit status 2 (never a verdict).
type infraError struct{ msg string }

func infra(format string, a ...any) { panic(infraError{fmt.Sprintf(format, a...)}) }

// Ctx is the per-check context: scratch space, the freshly built gocc, evidence, verdicts.
type Ctx struct {
	ID      string
	Tier    string
	Seed    int64
	Rng     *rand.Rand
	Scratch string
	Gocc    string
	Level   string
	start   time.Time

	mu         sync.Mutex
	cov        map[string]any
	samples    []any
	assume     []string
	violations int
	knownSeen  map[string]bool
	kfs        []KnownFinding
	tlcSeq     int
	distinct   map[string]bool
	reported   map[string]bool
}

func NewCtx(id, tier string, seed int64) *Ctx {
	c := &Ctx{ID: id, Tier: tier, Seed: seed, Rng: rand.New(rand.NewSource(seed)), start: time.Now(),
		cov: map[string]any{}, knownSeen: map[string]bool{}, distinct: map[string]bool{}, Level: "model_checking"}
	base := envOr("VERIF_SCRATCH", "/var/tmp")
	d, err := os.MkdirTemp(base, "verif-"+id+"-")
	if err != nil {
		fmt.Fprintln(os.Stderr, "cannot create scratch:", err)
		os.Exit(2)
	}
	c.Scratch = d
	return c
}

func (c *Ctx) Quick() bool { return c.Tier == "quick" }

// pick returns q in the quick tier and t in the thorough tier.
func (c *Ctx) pick(q, t int) int {
	if c.Quick() {
		return q
	}
	return t
}

func (c *Ctx) cleanup() {
	if os.Getenv("VERIF_KEEP") == "" {
		os.RemoveAll(c.Scratch)
	} else {
		fmt.Fprintln(os.Stderr, "scratch kept:", c.Scratch)
	}
}

// Run executes a check, writes the evidence file and exits with the protocol status.
func (c *Ctx) Run(f checkFn) {
	code := 0
	func() {
		defer func() {
			if r := recover(); r != nil {
				if ie, ok := r.(infraError); ok {
					fmt.Fprintf(os.Stderr, "INFRA property=%s: %s\n", c.ID, ie.msg)
					code = 2
					return
				}
				buf := make([]byte, 1<<16)
				n := runtime.Stack(buf, false)
				fmt.Fprintf(os.Stderr, "INFRA property=%s: panic: %v\n%s\n", c.ID, r, buf[:n])
				code = 2
			}
		}()
		c.loadKnownFindings()
		c.buildGocc()
		f(c)
		c.replayKnownFindings()
	}()
	c.cleanup()
	if code == 0 && c.violations > 0 {
		code = 1
	}
	if code != 2 {
		c.writeEvidence()
	}
	fmt.Printf("RESULT property=%s tier=%s seed=%d violations=%d wall_s=%.1f exit=%d\n", c.ID, c.Tier, c.Seed, c.violations, time.Since(c.start).Seconds(), code)
	os.Exit(code)
}

// ---------------------------------------------------------------------------------------
// commands

func goEnv() []string {
	env := []string{}
	for _, e := range os.Environ() {
		k := strings.SplitN(e, "=", 2)[0]
		switch k {
		case "GOFLAGS", "GOSUMDB", "GOTOOLCHAIN", "GOPROXY", "GONOSUMDB", "GONOSUMCHECK", "GOWORK":
			continue
		}
		env = append(env, e)
	}
	return append(env, "GOFLAGS=-mod=mod", "GOPROXY=off", "GOWORK=off")
}

type cmdResult struct {
	Out      string // stdout+stderr combined
	Stdout   string
	Code     int
	TimedOut bool
	Dur      time.Duration
}

type cmdOpts struct {
	Dir     string
	Env     []string
	Timeout time.Duration
	Stdin   []byte
}

func runCmd(o cmdOpts, name string, args ...string) cmdResult {
	if o.Timeout == 0 {
		o.Timeout = 10 * time.Minute
	}
	cx, cancel := context.WithTimeout(context.Background(), o.Timeout)
	defer cancel()
	cmd := exec.CommandContext(cx, name, args...)
	cmd.Dir = o.Dir
	if o.Env != nil {
		cmd.Env = o.Env
	}
	if o.Stdin != nil {
		cmd.Stdin = bytes.NewReader(o.Stdin)
	}
	var both, so bytes.Buffer
	var wmu sync.Mutex
	cmd.Stdout = &lockedWriter{mu: &wmu, ws: []*bytes.Buffer{&so, &both}}
	cmd.Stderr = &lockedWriter{mu: &wmu, ws: []*bytes.Buffer{&both}}
	cmd.WaitDelay = 5 * time.Second
	t0 := time.Now()
	err := cmd.Run()
	r := cmdResult{Out: both.String(), Stdout: so.String(), Dur: time.Since(t0)}
	if cx.Err() == context.DeadlineExceeded {
		r.TimedOut = true
		r.Code = -1
		return r
	}
	if err != nil {
		if ee, ok := err.(*exec.ExitError); ok {
			r.Code = ee.ExitCode()
		} else {
			r.Code = -2
			r.Out += "\n" + err.Error()
		}
	}
	return r
}

// lockedWriter serialises the writes of the stdout and stderr copiers (bytes.Buffer's
// ReadFrom must not be used concurrently with Write, so it is hidden here).
type lockedWriter struct {
	mu *sync.Mutex
	ws []*bytes.Buffer
}

// maxCapture bounds what is kept of a child's output (a runaway child must not fill memory);
// writing beyond it fails, which makes the child's next write fail and ends it.
const maxCapture = 1 << 28

func (t *lockedWriter) Write(p []byte) (int, error) {
	t.mu.Lock()
	defer t.mu.Unlock()
	for _, w := range t.ws {
		if w.Len() > maxCapture {
			return 0, fmt.Errorf("output limit exceeded")
		}
		w.Write(p)
	}
	return len(p), nil
}

// buildGocc builds gocc from /repo's current working tree.
func (c *Ctx) buildGocc() {
	c.Gocc = filepath.Join(c.Scratch, "gocc")
	var out string
	// a build can fail for reasons that have nothing to do with the tree (the shared build cache
	// being cleaned by another process at that moment): three attempts
	for attempt := 0; attempt < 3; attempt++ {
		if attempt > 0 {
			time.Sleep(10 * time.Second)
		}
		r := runCmd(cmdOpts{Dir: repoRoot, Env: goEnv(), Timeout: 10 * time.Minute}, "go", "build", "-o", c.Gocc, ".")
		if r.Code == 0 {
			return
		}
		// fall back to the newer local toolchain
		env := append(goEnv(), "GOTOOLCHAIN=local")
		r2 := runCmd(cmdOpts{Dir: repoRoot, Env: env, Timeout: 10 * time.Minute}, "go1.26", "build", "-o", c.Gocc, ".")
		if r2.Code == 0 {
			return
		}
		out = r.Out + "\n" + r2.Out
	}
	infra("cannot build gocc from %s:\n%s", repoRoot, out)
}

// parallel runs f(i) for i in [0,n) on up to NumCPU workers.
func parallel(n int, f func(i int)) {
	w := runtime.NumCPU()
	if w > n {
		w = n
	}
	var wg sync.WaitGroup
	ch := make(chan int)
	var pmu sync.Mutex
	var pval any
	for k := 0; k < w; k++ {
		wg.Add(1)
		go func() {
			defer wg.Done()
			for i := range ch {
				func() {
					defer func() {
						if r := recover(); r != nil {
							pmu.Lock()
							if pval == nil {
								pval = r
							}
							pmu.Unlock()
						}
					}()
					f(i)
				}()
			}
		}()
	}
	for i := 0; i < n; i++ {
		ch <- i
	}
	close(ch)
	wg.Wait()
	if pval != nil {
		panic(pval)
	}
}

func mustWrite(path string, data []byte) {
	if err := os.MkdirAll(filepath.Dir(path), 0o755); err != nil {
		infra("mkdir: %v", err)
	}
	if err := os.WriteFile(path, data, 0o644); err != nil {
		infra("write %s: %v", path, err)
	}
}

func mustJSON(v any) []byte {
	b, err := json.Marshal(v)
	if err != nil {
		infra("json: %v", err)
	}
	return b
}

func hashKey(parts ...string) string {
	h := sha256.New()
	for _, p := range parts {
		h.Write([]byte(p))
		h.Write([]byte{0})
	}
	return hex.EncodeToString(h.Sum(nil))[:16]
}

// ---------------------------------------------------------------------------------------
// evidence

func (c *Ctx) Add(key string, n int64) {
	c.mu.Lock()
	defer c.mu.Unlock()
	v, _ := c.cov[key].(int64)
	c.cov[key] = v + n
}

func (c *Ctx) Set(key string, v any) {
	c.mu.Lock()
	defer c.mu.Unlock()
	c.cov[key] = v
}

func (c *Ctx) Get(key string) int64 {
	c.mu.Lock()
	defer c.mu.Unlock()
	v, _ := c.cov[key].(int64)
	return v
}

// Sample records an explored case (at most 6 are kept).
func (c *Ctx) Sample(v any) {
	c.mu.Lock()
	defer c.mu.Unlock()
	if len(c.samples) < 6 {
		c.samples = append(c.samples, v)
	}
}

// Distinct counts a distinct non-trivial case by key.
func (c *Ctx) Distinct(key string) {
	c.mu.Lock()
	defer c.mu.Unlock()
	c.distinct[key] = true
}

func (c *Ctx) Assume(s string) {
	c.mu.Lock()
	defer c.mu.Unlock()
	for _, a := range c.assume {
		if a == s {
			return
		}
	}
	c.assume = append(c.assume, s)
}

func (c *Ctx) writeEvidence() {
	cov := map[string]any{}
	for k, v := range c.cov {
		cov[k] = v
	}
	if len(c.samples) == 0 {
		c.samples = append(c.samples, "no sample recorded")
	}
	cov["samples"] = c.samples
	if _, ok := cov["distinct_nontrivial"]; !ok {
		cov["distinct_nontrivial"] = int64(len(c.distinct))
	}
	for _, k := range []string{"evaluations", "states", "transitions", "traces_validated_against_impl"} {
		if _, ok := cov[k]; !ok {
			cov[k] = int64(0)
		}
	}
	if _, ok := cov["rule"]; !ok {
		cov["rule"] = ""
	}
	sort.Strings(c.assume)
	if c.assume == nil {
		c.assume = []string{}
	}
	ev := map[string]any{
		"property_id": c.ID,
		"tier":        c.Tier,
		"seed":        c.Seed,
		"level":       c.Level,
		"coverage":    cov,
		"assumptions": c.assume,
		"wall_s":      time.Since(c.start).Seconds(),
		"violations":  c.violations,
	}
	b, _ := json.MarshalIndent(ev, "", " ")
	mustWrite(filepath.Join(outRoot, "evidence", c.ID+".json"), append(b, '\n'))
}

// ---------------------------------------------------------------------------------------
// verdicts, replay files, known findings

// Replay describes one concrete failing case that `verif replay` can re-run on the real code.
type Replay struct {
	Property string         `json:"property"`
	Kind     string         `json:"kind"` // selects the replayer
	What     string         `json:"what"` // human-readable: what fails
	Data     map[string]any `json:"data"`
}

type KnownFinding struct {
	ID       string `json:"id"`
	Property string `json:"property"`
	Status   string `json:"status"` // "known" | "fixed"
	Commit   string `json:"commit,omitempty"`
	What     string `json:"what"`
	Replay   Replay `json:"replay"`
}

func (r *Replay) key() string {
	b, _ := json.Marshal(r.Data) // map keys are sorted by encoding/json
	return hashKey(r.Kind, string(b))
}

func (c *Ctx) loadKnownFindings() {
	b, err := os.ReadFile(filepath.Join(verifRoot, "known_findings.json"))
	if err != nil {
		return
	}
	var all struct {
		Findings []KnownFinding `json:"findings"`
	}
	if err := json.Unmarshal(b, &all); err != nil {
		infra("known_findings.json: %v", err)
	}
	for _, k := range all.Findings {
		if k.Property == c.ID {
			c.kfs = append(c.kfs, k)
		}
	}
}

// firstFor returns true the first time it is called with this subject (one report per grammar).
func (c *Ctx) firstFor(subject string) bool {
	c.mu.Lock()
	defer c.mu.Unlock()
	if c.reported == nil {
		c.reported = map[string]bool{}
	}
	if c.reported[subject] {
		return false
	}
	c.reported[subject] = true
	return true
}

// Violation reports a violation that has been reproduced on the real code.
// A case listed as a known finding is printed as KNOWN-FINDING instead.
func (c *Ctx) Violation(r Replay) {
	r.Property = c.ID
	key := r.key()
	c.mu.Lock()
	defer c.mu.Unlock()
	for _, k := range c.kfs {
		if k.Status == "known" && k.Replay.key() == key {
			if !c.knownSeen[k.ID] {
				c.knownSeen[k.ID] = true
				fmt.Printf("KNOWN-FINDING: property=%s id=%s %s\n", c.ID, k.ID, k.What)
			}
			return
		}
	}
	if c.knownSeen["v:"+key] {
		return
	}
	c.knownSeen["v:"+key] = true
	c.violations++
	path := filepath.Join(outRoot, "replays", fmt.Sprintf("%s-%s.json", c.ID, key))
	b, _ := json.MarshalIndent(r, "", " ")
	mustWrite(path, b)
	fmt.Printf("VIOLATION property=%s replay=%s\n", c.ID, path)
	fmt.Printf("  what: %s\n", r.What)
}

// replayer re-runs a replay on the real code: violated=true when the real code still misbehaves.
type replayer func(c *Ctx, r *Replay) (violated bool, detail string)

var replayers = map[string]replayer{}

func (c *Ctx) replayKnownFindings() {
	for _, k := range c.kfs {
		f, ok := replayers[k.Replay.Kind]
		if !ok {
			infra("known finding %s: no replayer for kind %q", k.ID, k.Replay.Kind)
		}
		rp := k.Replay
		rp.Property = c.ID
		bad, detail := f(c, &rp)
		switch {
		case bad && k.Status == "known":
			c.mu.Lock()
			if !c.knownSeen[k.ID] {
				c.knownSeen[k.ID] = true
				fmt.Printf("KNOWN-FINDING: property=%s id=%s %s\n", c.ID, k.ID, k.What)
			}
			c.mu.Unlock()
		case bad:
			rp.What = "regression of fixed finding " + k.ID + ": " + detail
			c.Violation(rp)
		}
	}
}

func replayFile(path string) int {
	b, err := os.ReadFile(path)
	if err != nil {
		fmt.Fprintln(os.Stderr, err)
		return 2
	}
	var r Replay
	if err := json.Unmarshal(b, &r); err != nil {
		fmt.Fprintln(os.Stderr, err)
		return 2
	}
	f, ok := replayers[r.Kind]
	if !ok {
		fmt.Fprintln(os.Stderr, "no replayer for kind", r.Kind)
		return 2
	}
	c := NewCtx(r.Property, "quick", 1)
	code := 0
	func() {
		defer func() {
			if x := recover(); x != nil {
				fmt.Fprintf(os.Stderr, "INFRA: %v\n", x)
				code = 2
			}
		}()
		c.buildGocc()
		bad, detail := f(c, &r)
		if bad {
			fmt.Printf("VIOLATION property=%s replay=%s\n  %s\n", r.Property, path, detail)
			code = 1
		} else {
			fmt.Printf("replay: property=%s holds on this tree (%s)\n", r.Property, detail)
		}
	}()
	c.cleanup()
	return code
}

func jsonUnmarshal(b []byte, v any) error { return json.Unmarshal(b, v) }
