// Command verif drives the model-based verification of goccmack/gocc.
//
//	verif check <ID> [--tier quick|thorough]
//	verif replay <file>
//
// Exit status: 0 = property held on everything explored, 1 = violation reproduced on the
// real code (a line "VIOLATION property=<id> replay=<path>" is printed), 2 = infrastructure
// problem (never a verdict).
package main

import (
	"fmt"
	"os"
	"sort"
	"strconv"
)

type checkFn func(c *Ctx)

var registry = map[string]checkFn{}

func register(id string, f checkFn) { registry[id] = f }

func main() {
	if len(os.Args) < 2 {
		usage()
	}
	switch os.Args[1] {
	case "check":
		if len(os.Args) < 3 {
			usage()
		}
		id := os.Args[2]
		tier := os.Getenv("VERIF_TIER")
		for i := 3; i < len(os.Args); i++ {
			if os.Args[i] == "--tier" && i+1 < len(os.Args) {
				tier = os.Args[i+1]
				i++
			}
		}
		if tier == "" {
			tier = "quick"
		}
		if tier != "quick" && tier != "thorough" {
			fmt.Fprintln(os.Stderr, "bad tier", tier)
			os.Exit(2)
		}
		seed := int64(1)
		if s := os.Getenv("VERIF_SEED"); s != "" {
			v, err := strconv.ParseInt(s, 10, 64)
			if err != nil {
				fmt.Fprintln(os.Stderr, "bad VERIF_SEED", s)
				os.Exit(2)
			}
			seed = v
		}
		f, ok := registry[id]
		if !ok {
			fmt.Fprintln(os.Stderr, "unknown check", id)
			usage()
		}
		c := NewCtx(id, tier, seed)
		c.Run(f)
	case "replay":
		if len(os.Args) < 3 {
			usage()
		}
		os.Exit(replayFile(os.Args[2]))
	case "tool":
		tool(os.Args[2:])
	default:
		usage()
	}
}

func usage() {
	ids := []string{}
	for k := range registry {
		ids = append(ids, k)
	}
	sort.Strings(ids)
	fmt.Fprintf(os.Stderr, "usage: verif check <ID> [--tier quick|thorough] | verif replay <file>\nchecks: %v\n", ids)
	os.Exit(2)
}
