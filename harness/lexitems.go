package main

import (
	"fmt"
	"regexp"
	"strconv"
	"time"
)

// ---------------------------------------------------------------------------------------
// Design-level comparison of gocc's item-set construction (LexItems.tla) with the semantics
// of C01 (Regex.tla) on an exhaustive family of tiny grammars with one regular definition.
// Purpose: (1) show that on the conflation-free classes the C01 generators draw from the two
// agree (soundness of the generator restriction), (2) exhibit finding F4 at design level.

// itemsAbstract: the record MC_LexItems.tla reads (all lexical productions, regdefs included).
func (g *LexGrammar) itemsAbstract() map[string]any {
	var prods []map[string]any
	for i, d := range g.Defs {
		prods = append(prods, map[string]any{"name": d.Name, "kind": d.Kind, "lit": false, "idx": i, "re": d.Re})
	}
	for j, l := range g.Lits {
		re := reString(l)
		tmp := LexGrammar{Defs: []LexDef{{Re: re}}, Atoms: g.Atoms}
		tmp.walk(func(r *Re) {
			if r.K == "set" {
				r.S = []int{g.atomOf(r.Lo)}
			}
		})
		prods = append(prods, map[string]any{"name": l, "kind": "tok", "lit": true, "idx": len(g.Defs) + j, "re": re})
	}
	return map[string]any{"natoms": len(g.Atoms), "prods": prods}
}

type tinyLex struct {
	G     *LexGrammar
	Class string // "CF-a", "CF-b", "CF-c" or "" (outside the classes)
	Desc  string
}

// regex shapes over the given leaves, up to n leaves
func shapes(leaves []func() *Re, n int) []func() *Re {
	type mk = func() *Re
	byN := map[int][]mk{1: leaves}
	for k := 2; k <= n; k++ {
		var out []mk
		for a := 1; a < k; a++ {
			for _, l := range byN[a] {
				for _, r := range byN[k-a] {
					l, r := l, r
					out = append(out, func() *Re { return reCat(l(), r()) })
					if a <= k-a {
						out = append(out, func() *Re { return reAlt(l(), r()) })
					}
				}
			}
		}
		for _, x := range byN[k-1] {
			x := x
			// unary operators do not add leaves but add one level: count them as one
			out = append(out, func() *Re { return reStar(x()) }, func() *Re { return reOpt(x()) })
		}
		byN[k] = out
	}
	var all []mk
	for k := 1; k <= n; k++ {
		all = append(all, byN[k]...)
	}
	return all
}

func hasRef(r *Re) bool {
	if r == nil {
		return false
	}
	return r.K == "ref" || hasRef(r.L) || hasRef(r.R) || hasRef(r.X)
}

func countRef(r *Re) int {
	if r == nil {
		return 0
	}
	n := 0
	if r.K == "ref" {
		n = 1
	}
	return n + countRef(r.L) + countRef(r.R) + countRef(r.X)
}

func usesRune(r *Re, x rune) bool {
	if r == nil {
		return false
	}
	if r.K == "set" && r.Lo <= x && x <= r.Hi {
		return true
	}
	return usesRune(r.L, x) || usesRune(r.R, x) || usesRune(r.X, x)
}

// topAlts flattens the top-level alternatives of a pattern
func topAlts(r *Re) []*Re {
	if r.K == "alt" {
		return append(topAlts(r.L), topAlts(r.R)...)
	}
	return []*Re{r}
}

// catParts flattens a top-level concatenation
func catParts(r *Re) []*Re {
	if r.K == "cat" {
		return append(catParts(r.L), catParts(r.R)...)
	}
	return []*Re{r}
}

// classify says which conflation-free class (as the C01 generator builds them) a tiny grammar
// "_r : body ; t : pattern ;" belongs to, if any.
func classifyTiny(body, pat *Re) string {
	// CF-a: an alternative of single sets, usable anywhere
	isA := true
	for _, a := range topAlts(body) {
		if a.K != "set" {
			isA = false
		}
	}
	if isA {
		return "CF-a"
	}
	// CF-b: a fixed word over the private rune 'c', used once as a part of the top-level
	// concatenation of the token, whose other parts do not use that rune
	isB := true
	for _, p := range catParts(body) {
		if p.K != "set" || p.Lo != 'c' || p.Hi != 'c' {
			isB = false
		}
	}
	if isB && countRef(pat) == 1 {
		parts := catParts(pat)
		n := 0
		ok := true
		for _, p := range parts {
			if p.K == "ref" {
				n++
			} else if hasRef(p) || usesRune(p, 'c') {
				ok = false
			}
		}
		if ok && n == 1 && len(parts) <= 3 {
			return "CF-b"
		}
	}
	// CF-c: referenced only as the first term of ONE top-level alternative of the token
	if countRef(pat) == 1 {
		alts := topAlts(pat)
		if len(alts) <= 2 {
			for _, a := range alts {
				if hasRef(a) {
					ps := catParts(a)
					if ps[0].K == "ref" && !hasRefList(ps[1:]) {
						return "CF-c"
					}
				}
			}
		}
	}
	return ""
}

func hasRefList(rs []*Re) bool {
	for _, r := range rs {
		if hasRef(r) {
			return true
		}
	}
	return false
}

// tinyLexFamily: every grammar "_r : body ; t : pattern ;" with body up to nb leaves over
// {a, b, c} and pattern up to np leaves over {a, b, c, _r} that mentions _r; no nullable body or
// pattern, no nullable repetition body.
func tinyLexFamily(nb, np int) []tinyLex {
	leafA := func() *Re { return reChar('a') }
	leafB := func() *Re { return reChar('b') }
	leafC := func() *Re { return reChar('c') }
	leafR := func() *Re { return reRef("_r") }
	bodies := shapes([]func() *Re{leafA, leafB, leafC}, nb)
	pats := shapes([]func() *Re{leafA, leafB, leafR}, np)
	var out []tinyLex
	seen := map[string]bool{}
	for _, mb := range bodies {
		for _, mp := range pats {
			b, p := mb(), mp()
			if !hasRef(p) {
				continue
			}
			g := &LexGrammar{Defs: []LexDef{regDef("_r", b), tokDef("t", p)}}
			if g.nullable(b) || g.nullable(p) || g.hasNullableStarBody(b) || g.hasNullableStarBody(p) {
				continue
			}
			key := g.renderLex()
			if seen[key] {
				continue
			}
			seen[key] = true
			g.computeAtoms()
			out = append(out, tinyLex{G: g, Class: classifyTiny(b, p), Desc: key})
		}
	}
	return out
}

var reDisagree = regexp.MustCompile(`(?m)^<<"DISAGREE", (\d+),`)

// lexItemsDesign runs the design-level comparison. It returns (grammars, disagreeing grammars
// outside the classes). A disagreement INSIDE a class means the restriction of the C01
// generators is unsound: infrastructure error (the check would demand more than gocc does by
// design, or less), to be fixed before anything else is believed.
func (c *Ctx) lexItemsDesign(nb, np int) {
	fam := tinyLexFamily(nb, np)
	var gs []any
	for _, t := range fam {
		gs = append(gs, t.G.itemsAbstract())
	}
	cfg := "INIT Init\nNEXT Next\nVIEW View\nINVARIANT AgreeOrReport\nCHECK_DEADLOCK FALSE\n"
	r := c.RunTLC(TLCOpts{Module: "MC_LexItems", Cfg: cfg, Timeout: 40 * time.Minute, Files: map[string][]byte{"grammars.json": mustJSON(gs)}})
	if !r.OK {
		infra("MC_LexItems failed (%s)\n%s", r.ErrKind, tail(filterTLC(r.Out), 30))
	}
	c.Add("states", r.Distinct)
	c.Add("transitions", r.Generated)
	bad := map[int]bool{}
	for _, m := range reDisagree.FindAllStringSubmatch(r.Out, -1) {
		k, _ := strconv.Atoi(m[1])
		bad[k-1] = true
	}
	inClass, outClass, badOut := 0, 0, 0
	var example string
	for i, t := range fam {
		if t.Class != "" {
			inClass++
			if bad[i] {
				infra("design level: gocc's item-set construction and the macro-expansion semantics disagree on a grammar of class %s, which the C01 generators use:\n%s", t.Class, t.Desc)
			}
		} else {
			outClass++
			if bad[i] {
				badOut++
				if example == "" {
					example = t.Desc
				}
			}
		}
	}
	c.Set("design_level_regdef_comparison", map[string]any{
		"tiny_grammars": len(fam), "in_conflation_free_classes": inClass, "agree_in_classes": inClass,
		"outside_classes": outClass, "disagree_outside_classes_F4": badOut, "example_F4": example,
		"distinct_product_states": r.Distinct,
	})
	fmt.Printf("design level (LexItems.tla vs Regex.tla): %d tiny grammars, %d in the conflation-free classes (all agree), %d outside of which %d disagree (finding F4)\n", len(fam), inClass, outClass, badOut)
}

// lexItemsBinding: the real gocc is run on grammars with unrestricted regular definitions and
// the real DFA is compared, by product exploration, with the model of gocc's own construction
// (LexItems.tla). Returns the number of grammars compared and the disagreements. Not a verdict
// about C01: it shows that LexItems.tla describes the generator.
func (c *Ctx) lexItemsBinding(gs []*LexGrammar) (int, []string) {
	b := c.buildLexBatch("lexitems", gs)
	var entries []any
	for _, cs := range b.Cases {
		e := cs.productEntry()
		it := cs.G.itemsAbstract()
		// tokmap into prods (all lexical productions): by name
		prods := it["prods"].([]map[string]any)
		tokmap := make([]int, len(cs.Dump.TokId))
		for n, id := range cs.Dump.TokId {
			for i, p := range prods {
				if p["kind"] == "tok" && p["name"] == id {
					tokmap[n] = i + 1
				}
			}
		}
		e["items"] = it
		e["tokmap"] = tokmap
		e["tatoms"] = cs.G.textAtoms()
		entries = append(entries, e)
	}
	var bad []string
	live := entries
	idx := make([]int, len(entries))
	for i := range idx {
		idx[i] = i
	}
	for round := 0; round < 10 && len(live) > 0; round++ {
		r := c.RunTLC(TLCOpts{Module: "LexItemsProduct", Cfg: "INIT Init\nNEXT Next\nVIEW View\nINVARIANT LiveAgree\nINVARIANT VerdictAgree\nCHECK_DEADLOCK FALSE\n", Timeout: 30 * time.Minute, Files: map[string][]byte{"batch.json": mustJSON(live)}})
		c.Add("states", r.Distinct)
		c.Add("transitions", r.Generated)
		if r.OK {
			break
		}
		if r.ErrKind != "invariant" || len(r.Trace) == 0 {
			infra("LexItemsProduct failed (%s) dir=%s\n%s", r.ErrKind, r.Dir, tail(filterTLC(r.Out), 30))
		}
		gi := int(r.Trace[len(r.Trace)-1]["g"].(float64)) - 1
		bad = append(bad, b.Cases[idx[gi]].Text)
		live = append(live[:gi:gi], live[gi+1:]...)
		idx = append(idx[:gi:gi], idx[gi+1:]...)
	}
	return len(b.Cases), bad
}
