package main

import (
	"fmt"
	"math/rand"
	"time"
)

func init() {
	register("C08", checkC08)
}

// runMCLexScan model-checks the Scan loop against every automaton (MC_LexScan.tla).
func (c *Ctx) runMCLexScan(invs, props []string) {
	type mcCfg struct {
		maxLen, maxCalls int
		widths, kinds    string
	}
	cfgs := []mcCfg{{3, 5, "{1, 3}", `{"nl", "cr", "tab", "o"}`}}
	if !c.Quick() {
		// deeper: longer texts with one width, and all widths 1..4 on three rune kinds
		cfgs = append(cfgs, mcCfg{4, 5, "{2}", `{"nl", "cr", "tab", "o"}`}, mcCfg{3, 6, "{1, 2, 4}", `{"nl", "tab", "o"}`})
	}
	var runs []map[string]any
	for k, m := range cfgs {
		cfg := fmt.Sprintf("SPECIFICATION Spec\nCONSTANTS\n  MaxLen = %d\n  Kinds = %s\n  Widths = %s\n  TokTypes = {2, 3}\n  MaxCalls = %d\nCHECK_DEADLOCK FALSE\n", m.maxLen, m.kinds, m.widths, m.maxCalls)
		for _, i := range invs {
			cfg += "INVARIANT " + i + "\n"
		}
		for _, p := range props {
			cfg += "PROPERTY " + p + "\n"
		}
		cov := !c.Quick() && k == 0
		r := c.RunTLC(TLCOpts{Module: "MC_LexScan", Cfg: cfg, Timeout: 60 * time.Minute, Coverage: cov})
		if !r.OK {
			infra("MC_LexScan: the model of the Scan loop violates its own properties (%s %s); the specification needs attention\n%s", r.ErrKind, r.InvViolated, tail(filterTLC(r.Out), 60))
		}
		c.Add("states", r.Distinct)
		c.Add("transitions", r.Generated)
		runs = append(runs, map[string]any{"distinct_states": r.Distinct, "generated": r.Generated, "depth": r.Depth, "max_text_len": m.maxLen, "max_calls": m.maxCalls, "widths": m.widths, "kinds": m.kinds})
		if cov {
			if z := coverageZero(r.Out, []string{"AScanAtEOF", "ABegin", "LoopStep", "AEnd", "AReset"}); len(z) > 0 {
				infra("MC_LexScan: actions never taken (vacuous model): %v", z)
			}
		}
	}
	c.Set("mc_lexscan", map[string]any{"runs": runs, "invariants": invs, "properties": props})
}

var posRunes = []rune{'\n', '\r', '\t', ' '}

// posInputs: position-hostile inputs for a grammar (CR, CRLF, tabs, multi-byte runes,
// undecodable bytes, INVALID followed by newline, ignored text at the end of input).
func posInputs(rng *rand.Rand, g *LexGrammar, n int) [][]byte {
	var alpha []int
	for _, a := range g.textAtoms() {
		if g.Atoms[a-1].Used {
			alpha = append(alpha, a)
		}
	}
	gaps := []int{}
	for _, a := range g.textAtoms() {
		if !g.Atoms[a-1].Used {
			gaps = append(gaps, a)
		}
	}
	var out [][]byte
	for i := 0; i < n; i++ {
		var b []byte
		k := 1 + rng.Intn(14)
		for j := 0; j < k; j++ {
			switch x := rng.Intn(12); {
			case x < 3:
				b = append(b, string(posRunes[rng.Intn(len(posRunes))])...)
			case x == 3:
				b = append(b, '\r', '\n')
			case x == 4:
				b = append(b, byte(0x80+rng.Intn(0x80)))
			case x == 5 && len(gaps) > 0:
				t, _ := g.textOfAtoms([]int{gaps[rng.Intn(len(gaps))]}, rng.Intn(3))
				b = append(b, t...)
			default:
				if len(alpha) > 0 {
					t, _ := g.textOfAtoms([]int{alpha[rng.Intn(len(alpha))]}, rng.Intn(3))
					b = append(b, t...)
				}
			}
		}
		// a leading byte order mark is ordinary text to a lexer (a classic place for special cases)
		if i%8 == 3 {
			b = append([]byte("\xef\xbb\xbf"), b...)
		}
		out = append(out, b)
	}
	out = append(out, []byte("\xef\xbb\xbf"), []byte("\xef\xbb"), []byte("\ufeff\ufeff"))
	return out
}

var c08Opts = lexGenOpts{MaxToks: 4, MaxIgn: 2, MaxDefs: 2, MaxLits: 1, Depth: 2, ForcePool: []rune{'\n', '\t', '\r'}}

func checkC08(c *Ctx) {
	c.Level = "model_checking"
	c.Set("rule", "(1) TLC explores the Scan-loop model against every automaton outcome for all texts up to the bound and checks exact positions, tiling, last-live-state-wins, sticky EOF; (2) real generated lexers (plain: one event per Scan call; -debug_lexer: one event per loop iteration) are run on atom strings, random bytes and position-hostile texts and every trace is validated by TLC against the same model instantiated with the automaton read out of the compiled code; (3) the token streams are compared with the TLA+ reference tokenizer including offset/line/column. distinct_nontrivial counts distinct (grammar, input) traces with >= 2 tokens")
	c.Assume("texts are decoded exactly as the generated code does (utf8.DecodeRune; an undecodable byte is U+FFFD of width 1)")
	c.runMCLexScan([]string{"PosExact", "CursorExact", "Tiling", "LastWins"}, []string{"EOFSticky", "ResetFresh", "Progress"})

	rng := rand.New(rand.NewSource(c.Seed))
	n := c.pick(24, 200)
	gs := curatedLex()
	for i := 0; i < n; i++ {
		gs = append(gs, genLexGrammar(rng, c08Opts))
	}
	for _, variant := range []struct {
		tag   string
		flags []string
		dbg   bool
	}{{"plain", nil, false}, {"debug", []string{"-debug_lexer"}, true}} {
		b := c.buildLexBatch("c08"+variant.tag, gs, variant.flags...)
		inputs := make([][][]byte, len(b.Cases))
		r2 := rand.New(rand.NewSource(c.Seed + 7))
		for i, cs := range b.Cases {
			inputs[i] = append(lexInputs(r2, cs.G, 3, c.pick(20, 80), c.pick(6, 20)), posInputs(r2, cs.G, c.pick(14, 60))...)
		}
		c.Add("evaluations", int64(len(b.Cases)))
		c.lexTraceCheck(b, inputs, 0, variant.dbg, "C08 ("+variant.tag+" lexer)")
		if !variant.dbg {
			mis := c.lexEndToEndMany(b.Cases, inputs, 0, true, b.Drv)
			for i, ms := range mis {
				if len(ms) > 0 {
					cs := b.Cases[i]
					c.Violation(Replay{Kind: "lex", What: fmt.Sprintf("lexer of the grammar below, input %q: %s\n%s", ms[0].In, ms[0].Msg, indent(cs.Text)), Data: lexReplayData(cs, ms[0].In, 0, true)})
				}
			}
			for i, cs := range b.Cases {
				for _, in := range inputs[i] {
					if len(in) >= 2 {
						c.Distinct(cs.Sub + string(in))
					}
				}
			}
			c.Sample(map[string]any{"grammar": b.Cases[0].Text, "inputs": fmt.Sprintf("%q", inputs[0][len(inputs[0])-4:])})
			c.Sample(map[string]any{"grammar": b.Cases[len(b.Cases)-1].Text, "inputs": fmt.Sprintf("%q", inputs[len(b.Cases)-1][len(inputs[len(b.Cases)-1])-4:])})
		}
	}
}
