package main

import (
	"fmt"
	"path/filepath"
	"strings"
	"time"
)

// overlayTest runs `go test` on a package of /repo with test files from /verif/overlays mapped
// into the package directory through -overlay (nothing is written into /repo).
// files: overlay file name -> name it gets inside the package directory.
func (c *Ctx) overlayTest(pkgDir string, files map[string]string, run string, env []string, timeout time.Duration) cmdResult {
	repl := map[string]string{}
	for src, dst := range files {
		repl[filepath.Join(repoRoot, pkgDir, dst)] = filepath.Join(verifRoot, "overlays", src)
	}
	c.mu.Lock()
	c.tlcSeq++
	ov := filepath.Join(c.Scratch, fmt.Sprintf("overlay%03d.json", c.tlcSeq))
	c.mu.Unlock()
	mustWrite(ov, mustJSON(map[string]any{"Replace": repl}))
	e := append(goEnv(), env...)
	r := runCmd(cmdOpts{Dir: repoRoot, Env: e, Timeout: timeout}, "go", "test", "-overlay", ov, "-count=1", "-vet=off", "-run", run, "-v", "./"+pkgDir)
	if r.TimedOut {
		infra("overlay test %s timed out", run)
	}
	if !strings.Contains(r.Out, "VERIF-STATS") {
		infra("overlay test %s in %s did not run to completion:\n%s", run, pkgDir, tail(r.Out, 30))
	}
	return r
}

// linesWith returns the payloads of the lines that start with the prefix.
func linesWith(out, prefix string) []string {
	var ls []string
	for _, l := range strings.Split(out, "\n") {
		if i := strings.Index(l, prefix); i >= 0 {
			ls = append(ls, strings.TrimSpace(l[i+len(prefix):]))
		}
	}
	return ls
}
