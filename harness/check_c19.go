package main

import (
	"bytes"
	"encoding/json"
	"fmt"
	"math/rand"
	"os"
	"path/filepath"
	"regexp"
	"sort"
	"strconv"
	"strings"
	"time"
)

func init() {
	register("C19", checkC19)
	replayers["md-one"] = replayMdOne
	replayers["md-e2e"] = replayMdE2E
}

var reMd = regexp.MustCompile(`(?m)^<<"MD", (".*")>>$`)

// hashTree returns a digest of every .go file below dir (relative path + content).
func hashTree(dir string) (string, []string) {
	var files []string
	filepath.Walk(dir, func(p string, info os.FileInfo, err error) error {
		if err == nil && !info.IsDir() && strings.HasSuffix(p, ".go") {
			files = append(files, p)
		}
		return nil
	})
	sort.Strings(files)
	var parts []string
	var rels []string
	for _, f := range files {
		b, _ := os.ReadFile(f)
		rel, _ := filepath.Rel(dir, f)
		parts = append(parts, rel, string(b))
		rels = append(rels, rel)
	}
	return hashKey(parts...), rels
}

// mdWrap splits a grammar text into 1-4 fenced blocks surrounded by prose. It returns the
// markdown text and the concatenation of the block contents.
func mdWrap(rng *rand.Rand, text string) (string, string) {
	// prose never contains three back-quotes in a row, never starts or ends with a back-quote
	// and is never empty between two fences (adjacent fences are outside the property's domain)
	proseBits := []string{"# Grammar\n", "Some *prose* here.\n", "é日本 text with ``two`` ticks and `one` tick\n", " \r\n", "line one\nline two\n\n", "tab\there; a : 'b' ; looks like code but is prose\n", " ",
		"~~~\nnot a fence: only three back-quotes are\n~~~\n", "a ~~~ b and --- and === and ***\n", "    indented four blanks: still prose\n"}
	lines := strings.SplitAfter(text, "\n")
	nb := 1 + rng.Intn(4)
	if nb > len(lines) {
		nb = len(lines)
	}
	cuts := map[int]bool{}
	for len(cuts) < nb-1 {
		cuts[1+rng.Intn(len(lines)-1)] = true
	}
	var md, cat strings.Builder
	md.WriteString(proseBits[rng.Intn(len(proseBits))])
	md.WriteString("```")
	if rng.Intn(2) == 0 {
		md.WriteString("\n")
		cat.WriteString("\n")
	}
	for i, l := range lines {
		if cuts[i] {
			md.WriteString("```")
			md.WriteString(proseBits[rng.Intn(len(proseBits))])
			md.WriteString("```")
			// the code blocks are concatenated: keep a separator so that tokens do not fuse
			md.WriteString("\n")
			cat.WriteString("\n")
		}
		md.WriteString(l)
		cat.WriteString(l)
	}
	md.WriteString("```\n")
	md.WriteString(proseBits[rng.Intn(len(proseBits))])
	return md.String(), cat.String()
}

func checkC19(c *Ctx) {
	c.Level = "model_checking"
	maxLen := c.pick(7, 9)
	c.Set("rule", fmt.Sprintf("Md.tla transcribes loadMd as a state machine and states the reference (blank fences and prose, keep newlines and code, keep the length); TLC checks equality for EVERY input of up to %d characters over {back-quote, newline, other ASCII, non-ASCII} inside the property's domain; the model's outcome table is replayed on the real loadMd/GetSource (go test -overlay) with concrete characters; end to end, generated grammars are split into 1-4 bare fenced blocks with hostile prose: the .md run and the run on the concatenated blocks must produce byte-identical packages and the same exit status, and a diagnostic for an error injected at a known line/column of the markdown file must carry exactly that position. distinct_nontrivial counts table inputs containing a fence", maxLen))
	c.Assume("domain: every maximal run of back-quotes has length <= 3 (bare fences, no ``` inside prose or code); grammar files are valid UTF-8")
	cfg := fmt.Sprintf("SPECIFICATION Spec\nCONSTANT MaxLen = %d\nINVARIANT EqualsBlank\nINVARIANT LengthKept\nINVARIANT Dump\nCHECK_DEADLOCK FALSE\n", maxLen)
	r := c.RunTLC(TLCOpts{Module: "Md", Cfg: cfg, Timeout: 40 * time.Minute})
	if !r.OK {
		infra("Md.tla: transcription of loadMd differs from the reference (%s %s) - loadMd or the transcription is wrong; needs attention\n%s", r.ErrKind, r.InvViolated, tail(filterTLC(r.Out), 40))
	}
	c.Add("states", r.Distinct)
	c.Add("transitions", r.Generated)
	var table bytes.Buffer
	n := 0
	for _, m := range reMd.FindAllStringSubmatch(r.Out, -1) {
		s, err := strconv.Unquote(m[1])
		if err != nil {
			continue
		}
		table.WriteString(s)
		table.WriteByte('\n')
		n++
		if strings.Contains(s, `"q","q","q"`) {
			c.Distinct(s)
		}
		if n == 4000 || n == 9000 {
			c.Sample(json.RawMessage(s))
		}
	}
	if n < 1000 {
		infra("Md outcome table has only %d rows", n)
	}
	tpath := filepath.Join(c.Scratch, "md_table.ndjson")
	mustWrite(tpath, table.Bytes())
	res := c.overlayTest("internal/util/md", map[string]string{"md_verif_test.go": "zz_md_verif_test.go"}, "TestVerifMd$", []string{"VERIF_MD_TABLE=" + tpath}, 20*time.Minute)
	for _, st := range linesWith(res.Out, "VERIF-STATS") {
		var e, f, m int
		fmt.Sscanf(st, "entries=%d files=%d mismatches=%d", &e, &f, &m)
		c.Add("evaluations", int64(e))
		c.Add("traces_validated_against_impl", int64(e))
	}
	for _, mm := range linesWith(res.Out, "VERIF-MISMATCH") {
		var e struct{ In, Got, Want string }
		json.Unmarshal([]byte(mm), &e)
		if c.firstFor("md" + e.In) {
			c.Violation(Replay{Kind: "md-one", What: fmt.Sprintf("loadMd(%q) = %q, the specification says %q", e.In, e.Got, e.Want), Data: map[string]any{"in": e.In, "want": e.Want}})
		}
	}
	c.mdEndToEnd()
}

type mdCase struct {
	Text, Md, Cat string
	ErrLine, ErrCol int // position of an injected illegal character in the markdown file (0: none)
	CatLine, CatCol int // its position in the concatenation of the blocks
}

func (c *Ctx) mdEndToEnd() {
	rng := rand.New(rand.NewSource(c.Seed))
	n := c.pick(24, 200)
	var cases []mdCase
	for i := 0; i < n; i++ {
		var text string
		if i%2 == 0 {
			g := genSynGrammar(rng, c02Opts)
			text = strings.ReplaceAll(g.render(), "@@PKG@@", "scratch/x")
		} else {
			text = genLexGrammar(rng, lexGenOpts{MaxToks: 4, MaxIgn: 1, MaxDefs: 2, MaxLits: 1, Depth: 2, NoDot: false}).render()
		}
		if strings.Contains(text, "```") || strings.Contains(text, "`") {
			continue // back-quotes in the grammar itself are outside the property's domain
		}
		errCase := i%3 == 0 && !strings.Contains(text, "?")
		if errCase {
			// an illegal character in front of the body of some production; found again in the
			// markdown text by searching for it (prose never contains '?')
			ls := strings.Split(text, "\n")
			var cand []int
			for li, l := range ls {
				if k := strings.Index(l, " : "); k >= 0 && !strings.Contains(l[:k], "'") {
					cand = append(cand, li)
				}
			}
			if len(cand) == 0 {
				errCase = false
			} else {
				li := cand[rng.Intn(len(cand))]
				at := strings.Index(ls[li], " : ") + 3
				ls[li] = ls[li][:at] + "? " + ls[li][at:]
				text = strings.Join(ls, "\n")
			}
		}
		md, cat := mdWrap(rng, text)
		cs := mdCase{Text: text, Md: md, Cat: cat}
		if errCase {
			k := strings.Index(md, "?")
			before := md[:k]
			cs.ErrLine = 1 + strings.Count(before, "\n")
			cs.ErrCol = 1 + len([]rune(before[strings.LastIndex(before, "\n")+1:]))
			kb := strings.Index(cat, "?")
			bb := cat[:kb]
			cs.CatLine = 1 + strings.Count(bb, "\n")
			cs.CatCol = 1 + len([]rune(bb[strings.LastIndex(bb, "\n")+1:]))
		}
		cases = append(cases, cs)
	}
	mMd := c.NewModule("c19md")
	mBnf := c.NewModule("c19bnf")
	type res struct{ a, b GoccRun }
	out := make([]res, len(cases))
	parallel(len(cases), func(i int) {
		sub := fmt.Sprintf("g%03d", i)
		out[i].a = mMd.GoccExt(sub, "g.md", []byte(cases[i].Md), 60*time.Second, "-a")
		out[i].b = mBnf.GoccExt(sub, "g.bnf", []byte(cases[i].Cat), 60*time.Second, "-a")
	})
	for i, cs := range cases {
		sub := fmt.Sprintf("g%03d", i)
		c.Add("evaluations", 1)
		if cs.ErrLine > 0 && out[i].b.Code != 0 {
			// the plain file is refused with a diagnostic at the injected character: the markdown
			// run must be refused too, naming the position the character has in the markdown file
			// (if gocc does not refuse the plain file either, that is C14's subject, not C19's)
			if strings.Contains(out[i].b.Out, fmt.Sprintf("@ %d:%d", cs.CatLine, cs.CatCol)) {
				want := fmt.Sprintf("@ %d:%d", cs.ErrLine, cs.ErrCol)
				if out[i].a.Code == 0 || !strings.Contains(out[i].a.Out, want) {
					if c.firstFor(cs.Md) {
						c.Violation(Replay{Kind: "md-e2e", What: fmt.Sprintf("markdown file with an illegal '?' at line %d column %d: gocc exit %d, diagnostic %q (expected position %s; the plain file is refused with %q)\n%s", cs.ErrLine, cs.ErrCol, out[i].a.Code, strings.TrimSpace(tail(out[i].a.Out, 2)), want, strings.TrimSpace(tail(out[i].b.Out, 1)), indent(cs.Md)),
							Data: map[string]any{"md": cs.Md, "cat": cs.Cat, "errline": cs.ErrLine, "errcol": cs.ErrCol}})
					}
				}
				c.Add("position_diagnostics_checked", 1)
				continue
			}
		}
		ha, fa := hashTree(filepath.Join(mMd.Dir, sub))
		hb, fb := hashTree(filepath.Join(mBnf.Dir, sub))
		if out[i].a.Code != out[i].b.Code || ha != hb {
			if c.firstFor(cs.Md) {
				c.Violation(Replay{Kind: "md-e2e", What: fmt.Sprintf("gocc on the markdown file: exit %d, files %v; on the concatenation of its fenced blocks: exit %d, files %v; generated packages identical: %v\n%s", out[i].a.Code, fa, out[i].b.Code, fb, ha == hb, indent(cs.Md)),
					Data: map[string]any{"md": cs.Md, "cat": cs.Cat, "errline": 0, "errcol": 0}})
			}
		}
		c.Add("md_vs_concatenation_compared", 1)
	}
	if len(cases) > 0 {
		c.Sample(map[string]any{"markdown": cases[0].Md})
	}
}

func replayMdOne(c *Ctx, r *Replay) (bool, string) {
	in, _ := r.Data["in"].(string)
	want, _ := r.Data["want"].(string)
	res := c.overlayTest("internal/util/md", map[string]string{"md_verif_test.go": "zz_md_verif_test.go"}, "TestVerifMdOne", []string{"VERIF_MD_INPUT=" + in, "VERIF_MD_WANT=" + want}, 10*time.Minute)
	if mm := linesWith(res.Out, "VERIF-MISMATCH"); len(mm) > 0 {
		return true, mm[0]
	}
	return false, "loadMd equals the reference"
}

func replayMdE2E(c *Ctx, r *Replay) (bool, string) {
	md, _ := r.Data["md"].(string)
	cat, _ := r.Data["cat"].(string)
	el, _ := r.Data["errline"].(float64)
	ec, _ := r.Data["errcol"].(float64)
	mMd := c.NewModule("c19rmd")
	a := mMd.GoccExt("g000", "g.md", []byte(md), 60*time.Second, "-a")
	if el > 0 {
		want := fmt.Sprintf("@ %d:%d", int(el), int(ec))
		if a.Code == 0 || !strings.Contains(a.Out, want) {
			return true, fmt.Sprintf("diagnostic %q does not carry position %s", strings.TrimSpace(tail(a.Out, 2)), want)
		}
		return false, "diagnostic carries the markdown position"
	}
	mB := c.NewModule("c19rbnf")
	b := mB.GoccExt("g000", "g.bnf", []byte(cat), 60*time.Second, "-a")
	ha, _ := hashTree(filepath.Join(mMd.Dir, "g000"))
	hb, _ := hashTree(filepath.Join(mB.Dir, "g000"))
	if a.Code != b.Code || ha != hb {
		return true, fmt.Sprintf("exit %d vs %d, packages identical: %v", a.Code, b.Code, ha == hb)
	}
	return false, "same packages and exit status"
}
