package main

import (
	"encoding/json"
	"fmt"
	"math/rand"
	"reflect"
	"regexp"
	"strconv"
	"strings"
	"time"
)

func init() {
	register("C17", checkC17)
	replayers["concurrent"] = replayConcurrent
}

var reSched = regexp.MustCompile(`(?m)^<<"SCHED", (".*")>>$`)

// schedules asks TLC (Conc.tla) for interleavings of goroutines with the given gate counts:
// all of them when the space is small, a simulated sample otherwise.
func (c *Ctx) schedules(k []int, max int) ([][]int, bool) {
	ks := make([]string, len(k))
	total := 0
	for i, x := range k {
		ks[i] = strconv.Itoa(x)
		total += x
	}
	cfg := "SPECIFICATION Spec\nINVARIANT Independent\nINVARIANT DumpSchedule\nCHECK_DEADLOCK FALSE\n"
	_ = ks
	// number of complete schedules = multinomial
	count := 1.0
	rem := total
	for _, x := range k {
		for j := 1; j <= x; j++ {
			count = count * float64(rem) / float64(j)
			rem--
		}
	}
	opts := TLCOpts{Module: "Conc", Cfg: cfg, Workers: 1, Timeout: 20 * time.Minute, Files: map[string][]byte{"k.json": mustJSON(k)}}
	exhaustive := count <= float64(max)
	if !exhaustive {
		opts.Simulate = fmt.Sprintf("num=%d", max)
		opts.Depth = total + 1
	}
	r := c.RunTLC(opts)
	if !r.OK {
		infra("Conc.tla failed (%s)\n%s", r.ErrKind, tail(filterTLC(r.Out), 30))
	}
	c.Add("states", max64(r.Distinct, r.Generated))
	c.Add("transitions", r.Generated)
	seen := map[string]bool{}
	var out [][]int
	for _, m := range reSched.FindAllStringSubmatch(r.Out, -1) {
		s, err := strconv.Unquote(m[1])
		if err != nil || seen[s] {
			continue
		}
		seen[s] = true
		var sc []int
		if json.Unmarshal([]byte(s), &sc) == nil {
			for i := range sc {
				sc[i]-- // goroutine indices are 0-based in the driver
			}
			out = append(out, sc)
		}
	}
	return out, exhaustive
}

func max64(a, b int64) int64 {
	if a > b {
		return a
	}
	return b
}

// gateCount: scan and call events of a recorded Parse
func gateCount(evs []map[string]any) int {
	n := 0
	for _, e := range evs {
		if e["ev"] == "scan" || e["ev"] == "call" {
			n++
		}
	}
	return n
}

func normEvents(evs []map[string]any) string {
	b, _ := json.Marshal(evs)
	return string(b)
}

var c17Opts = synGenOpts{MaxNT: 3, MaxT: 3, MaxAlts: 3, MaxBody: 3, PEmpty: 0.15, PLit: 0.3, Actions: true}

func checkC17(c *Ctx) {
	c.Level = "exploration"
	c.Set("rule", "Conc.tla states the design claim (private per-goroutine state, constant tables) and enumerates interleavings at gate granularity (every Scan call and every action call is a gate): exhaustively for small gate counts, by TLC simulation beyond; each schedule is replayed on the real generated parsers (plain and -zip), built with the race detector, gates blocking until the schedule says so; every goroutine's trace must equal its sequential trace, which is validated by TLC against the driver model; additionally free-running stress: many goroutines, each with its own generated lexer and parser over texts, including error rendering, must reproduce the sequential results with an empty race report. Schedule replay + race detector: exploration of interleavings at gate granularity, not a proof over machine-level interleavings. distinct_nontrivial counts distinct (grammar, schedule) replays")
	rng := rand.New(rand.NewSource(c.Seed))
	var gs []*SynGrammar
	for _, g := range curatedSyn()[:5] {
		for i := range g.Prods {
			g.Prods[i].Action = "log"
		}
		gs = append(gs, g)
	}
	for _, g := range curatedErrSyn()[:1] {
		for i := range g.Prods {
			g.Prods[i].Action = "log"
		}
		gs = append(gs, g)
	}
	for i := 0; i < c.pick(6, 30); i++ {
		gs = append(gs, genSynGrammar(rng, c17Opts))
	}
	gs = append(gs, wideAlphabetSyn())
	withLexGlue = true
	defer func() { withLexGlue = false }()
	for vi, fl := range [][]string{{"-a"}, {"-a", "-zip"}} {
		b := c.buildSynBatch(fmt.Sprintf("c17v%d", vi), gs, [][]string{fl}, "-race")
		cases := b.built()
		if len(cases) == 0 {
			infra("no grammar built for C17")
		}
		for ci, cs := range cases {
			if cs.pairingProblem() != "" {
				continue
			}
			c.Add("evaluations", 1)
			// goroutines: 2 (quick) or 2-3 with small inputs, each its own input
			nG := 2
			if !c.Quick() && ci%2 == 1 {
				nG = 3
			}
			pool := synInputs(rng, cs.G, 3, 20, 6, true)
			var hist [][]parseInput
			var abs [][]int
			for g := 0; g < nG; g++ {
				in := pool[rng.Intn(len(pool))]
				for len(in) > 4 {
					in = pool[rng.Intn(len(pool))]
				}
				abs = append(abs, in)
				pi := parseInput{Toks: []int{}}
				for _, t := range in {
					pi.Toks = append(pi.Toks, cs.realType(t))
				}
				hist = append(hist, []parseInput{pi})
			}
			// sequential reference runs (also validated against the model)
			seq, _ := b.Drv.Run([]parseOp{{Op: "parse", G: cs.Sub, Histories: hist, Concurrent: true, Schedule: seqSchedule(nG, 64)}})
			var hs []*synHistory
			k := make([]int, nG)
			for g := 0; g < nG; g++ {
				evs := seq[0].Runs[g][0]
				k[g] = gateCount(evs)
				h := &synHistory{Case: cs, CaseIx: 0, Inputs: []synInput{{Toks: abs[g]}}, Events: [][]map[string]any{convertEvents(cs, evs)}}
				hs = append(hs, h)
			}
			if rej := c.validateSynTraces([]*SynCase{cs}, hs, false, false); len(rej) > 0 {
				continue // the sequential behaviour itself deviates: C02..C07's subject
			}
			scheds, exhaustive := c.schedules(k, c.pick(40, 400))
			if ci == 0 {
				c.Set("first_case_schedules", map[string]any{"gates": k, "schedules": len(scheds), "exhaustive": exhaustive})
			}
			var ops []parseOp
			for _, sc := range scheds {
				c.Distinct(cs.Sub + fmt.Sprint(fl, sc))
				ops = append(ops, parseOp{Op: "parse", G: cs.Sub, Histories: hist, Concurrent: true, Schedule: sc})
			}
			if len(ops) == 0 {
				continue
			}
			res, _ := b.Drv.Run(ops) // one process replays all schedules of this case
			c.raceCheck(b, cs, fl, "schedule replay")
			for si, sc := range scheds {
				for g := 0; g < nG; g++ {
					if normEvents(res[si].Runs[g][0]) != normEvents(seq[0].Runs[g][0]) && c.firstFor(cs.Text+fmt.Sprint(fl)) {
						c.Violation(Replay{Kind: "concurrent", What: fmt.Sprintf("goroutine %d of %d, schedule %v, flags %v: its trace differs from the one it produces alone:\n  alone:     %s\n  scheduled: %s\n%s", g, nG, sc, fl, normEvents(seq[0].Runs[g][0]), normEvents(res[si].Runs[g][0]), indent(cs.Text)),
							Data: map[string]any{"grammar": cs.Text, "flags": fl, "inputs": hist, "schedule": sc, "nts": cs.G.NTs, "terms": cs.G.Terms, "islit": cs.G.IsLit, "abs": cs.Abs}})
					}
				}
				c.Add("traces_validated_against_impl", int64(nG))
			}
			if ci == 0 && len(scheds) > 0 {
				c.Sample(map[string]any{"grammar": cs.Text, "flags": fl, "inputs": []string{cs.G.inputString(abs[0]), cs.G.inputString(abs[1])}, "a_schedule": scheds[len(scheds)/2]})
			}
		}
		// ---- free-running stress with real lexers, error rendering included
		c.stress(b, cases, rng, fl)
	}
}

func (c *Ctx) raceCheck(b *SynBatch, cs *SynCase, fl []string, where string) {
	if b.Drv.Race != "" && c.firstFor("race"+cs.Text+fmt.Sprint(fl)) {
		c.Violation(Replay{Kind: "concurrent", What: fmt.Sprintf("the race detector reports an unsynchronised access in generated code (%s, flags %v):\n%s\n%s", where, fl, indent(b.Drv.Race), indent(cs.Text)),
			Data: map[string]any{"grammar": cs.Text, "flags": fl, "texts": [][]string{{cs.G.textOf(nil)}, {cs.G.textOf(nil)}}, "nts": cs.G.NTs, "terms": cs.G.Terms, "islit": cs.G.IsLit, "abs": cs.Abs}})
	}
}

func seqSchedule(nG, gates int) []int {
	var s []int
	for g := 0; g < nG; g++ {
		for i := 0; i < gates; i++ {
			s = append(s, g)
		}
	}
	return s
}

func convertEvents(cs *SynCase, evs []map[string]any) []map[string]any {
	// deep copy through JSON, then convert names to terminal ids like recordSynTraces does
	var cp []map[string]any
	jsonUnmarshal(mustJSON(evs), &cp)
	for _, e := range cp {
		if args, ok := e["args"].([]any); ok {
			for _, a := range args {
				if m, ok := a.(map[string]any); ok {
					cs.convertDesc(m)
				}
			}
		}
		if m, ok := e["res"].(map[string]any); ok {
			cs.convertDesc(m)
		}
		if m, ok := e["err"].(map[string]any); ok {
			cs.convertDesc(m)
			for _, k := range []string{"injected", "toktype"} {
				if _, ok := m[k]; !ok {
					m[k] = -1
				}
			}
		}
	}
	return cp
}

// textOf renders abstract terminals as source text for the generated lexer of a SynGrammar.
func (g *SynGrammar) textOf(toks []int) string {
	var sb strings.Builder
	for _, t := range toks {
		if t < 2 {
			sb.WriteString("? ")
			continue
		}
		i := t - 2
		if g.IsLit[i] {
			sb.WriteString(g.Terms[i] + " ")
		} else {
			fmt.Fprintf(&sb, "#%c%c ", 'a'+(i/26)%26, 'a'+i%26)
		}
	}
	return sb.String()
}

func (c *Ctx) stress(b *SynBatch, cases []*SynCase, rng *rand.Rand, fl []string) {
	nG := c.pick(8, 16)
	per := c.pick(20, 100)
	for _, cs := range cases {
		if cs.pairingProblem() != "" || cs.G.errTerm() >= 0 {
			continue
		}
		if cs.G.hasCycle() {
			continue // the resolved parser of a cyclic grammar may reduce for ever: nothing to compare
		}
		var pool [][]int
		for _, in := range synInputs(rng, cs.G, 3, 10, 10, false) {
			if len(in) <= 16 {
				// short inputs: this check is about interference between instances, and a run that
				// takes long under the race detector would meet the watchdog on a loaded machine
				pool = append(pool, in)
			}
		}
		texts := make([][]string, nG)
		for g := range texts {
			for i := 0; i < per; i++ {
				texts[g] = append(texts[g], cs.G.textOf(pool[rng.Intn(len(pool))]))
			}
		}
		seq, _ := b.Drv.Run([]parseOp{{Op: "parse", G: cs.Sub, Texts: texts, Concurrent: true, Schedule: seqSchedule(nG, 1<<16)}})
		if b.Drv.Hung {
			c.Add("stress_runs_ended_by_watchdog", 1)
			continue
		}
		for rep := 0; rep < c.pick(1, 3); rep++ {
			res, _ := b.Drv.Run([]parseOp{{Op: "parse", G: cs.Sub, Texts: texts, Concurrent: true}})
			if b.Drv.Hung {
				// a verdict needs two complete runs
				c.Add("stress_runs_ended_by_watchdog", 1)
				continue
			}
			c.Add("stress_parses", int64(nG*per))
			if b.Drv.Race != "" && c.firstFor("race"+cs.Text+fmt.Sprint(fl)) {
				c.Violation(Replay{Kind: "concurrent", What: fmt.Sprintf("the race detector reports an unsynchronised access in generated code (flags %v, %d goroutines with their own lexer and parser):\n%s\n%s", fl, nG, indent(b.Drv.Race), indent(cs.Text)),
					Data: map[string]any{"grammar": cs.Text, "flags": fl, "texts": texts, "nts": cs.G.NTs, "terms": cs.G.Terms, "islit": cs.G.IsLit, "abs": cs.Abs}})
			}
			if !reflect.DeepEqual(seq[0].Runs, res[0].Runs) && c.firstFor("stress"+cs.Text+fmt.Sprint(fl)) {
				c.Violation(Replay{Kind: "concurrent", What: fmt.Sprintf("%d goroutines, each with its own generated lexer and parser (flags %v): results differ from the sequential results\n%s", nG, fl, indent(cs.Text)),
					Data: map[string]any{"grammar": cs.Text, "flags": fl, "texts": texts, "nts": cs.G.NTs, "terms": cs.G.Terms, "islit": cs.G.IsLit, "abs": cs.Abs}})
			}
		}
	}
}

// replayConcurrent rebuilds with -race and repeats the schedule / the stress run.
func replayConcurrent(c *Ctx, r *Replay) (bool, string) {
	var d synReplay
	jsonUnmarshal(mustJSON(r.Data), &d)
	g := &SynGrammar{NTs: d.NTs, Terms: d.Terms, IsLit: d.IsLit}
	withLexGlue = true
	defer func() { withLexGlue = false }()
	b := c.buildSynBatchWith("c17r", []*SynGrammar{g}, [][]string{d.Flags}, func(int) (string, synAbs) { return d.Grammar, d.Abs }, "-race")
	cs := b.Cases[0]
	if !cs.Built {
		return false, "grammar does not build any more"
	}
	if tx, ok := r.Data["texts"]; ok {
		var texts [][]string
		jsonUnmarshal(mustJSON(tx), &texts)
		seq, _ := b.Drv.Run([]parseOp{{Op: "parse", G: cs.Sub, Texts: texts, Concurrent: true, Schedule: seqSchedule(len(texts), 1<<16)}})
		for i := 0; i < 5; i++ {
			res, _ := b.Drv.Run([]parseOp{{Op: "parse", G: cs.Sub, Texts: texts, Concurrent: true}})
			if b.Drv.Race != "" {
				return true, "race detector: " + b.Drv.Race[:min(len(b.Drv.Race), 600)]
			}
			if !reflect.DeepEqual(seq[0].Runs, res[0].Runs) {
				return true, "concurrent results differ from sequential results"
			}
		}
		return false, "concurrent results equal sequential results"
	}
	var hist [][]parseInput
	jsonUnmarshal(mustJSON(r.Data["inputs"]), &hist)
	var sc []int
	jsonUnmarshal(mustJSON(r.Data["schedule"]), &sc)
	seq, _ := b.Drv.Run([]parseOp{{Op: "parse", G: cs.Sub, Histories: hist, Concurrent: true, Schedule: seqSchedule(len(hist), 64)}})
	res, _ := b.Drv.Run([]parseOp{{Op: "parse", G: cs.Sub, Histories: hist, Concurrent: true, Schedule: sc}})
	for g := range hist {
		if normEvents(res[0].Runs[g][0]) != normEvents(seq[0].Runs[g][0]) {
			return true, fmt.Sprintf("goroutine %d: scheduled trace differs from its sequential trace", g)
		}
	}
	return false, "scheduled traces equal sequential traces"
}

// wideAlphabetSyn: forty one-character terminals (every other character, so that no two classes
// merge): the start state of the lexer has more classes than any table-size threshold a code
// generator might switch strategies at; goroutines read different characters.
func wideAlphabetSyn() *SynGrammar {
	g := &SynGrammar{NTs: []string{"Start", "Item"}}
	for _, r := range "acegikmoqsuwyACEGIKMOQSUWY02468+*/=<>(){}" {
		g.Terms = append(g.Terms, string(r))
		g.IsLit = append(g.IsLit, true)
	}
	g.Prods = append(g.Prods, SynProd{Head: 0, Body: []Sym{N(1)}, Action: "log"}, SynProd{Head: 0, Body: []Sym{N(0), N(1)}, Action: "log"})
	for i := range g.Terms {
		g.Prods = append(g.Prods, SynProd{Head: 1, Body: []Sym{T(i)}, Action: "log"})
	}
	g.normalize()
	return g
}
