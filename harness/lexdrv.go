package main

import (
	"encoding/json"
	"fmt"
	"os"
	"path/filepath"
	"regexp"
	"strconv"
	"strings"
	"time"
)

// ---------------------------------------------------------------------------------------
// Driver program for generated lexers: one executable that links the lexer/token packages of
// a whole batch of grammars and executes operations read from a JSON file:
//   dump  - evaluate every transition function on the probe runes of every atom, read ActTab
//           and the token map (this is how the real DFA is read out of the compiled code)
//   scan  - run Lexer.Scan over inputs until end of input (plus two more calls), optionally
//           Reset() and scan again
// Results are written to a JSON file (stdout is left to the -debug_lexer output).

const lexDrvMain = `package main

import (
	"encoding/json"
	"fmt"
	"os"
)

type Tok struct {
	Type int    ` + "`json:\"type\"`" + `
	Lit  []byte ` + "`json:\"lit\"`" + `
	Off  int    ` + "`json:\"off\"`" + `
	Line int    ` + "`json:\"line\"`" + `
	Col  int    ` + "`json:\"col\"`" + `
}

type Lexer interface {
	Next() Tok
	Reset()
}

type Pkg struct {
	NumStates int
	Trans     func(s int, r rune) int
	Act       func(s int) (int, string)
	TokId     func(n int) string
	TokType   func(s string) int
	New       func(src []byte) Lexer
}

var pkgs = map[string]*Pkg{}

type Op struct {
	Op     string    ` + "`json:\"op\"`" + `
	G      string    ` + "`json:\"g\"`" + `
	Probes [][]rune  ` + "`json:\"probes\"`" + `
	NIds   int       ` + "`json:\"nids\"`" + `
	Names  []string  ` + "`json:\"names\"`" + `
	Inputs [][]byte  ` + "`json:\"inputs\"`" + `
	Resets int       ` + "`json:\"resets\"`" + `
	Extra  int       ` + "`json:\"extra\"`" + `
	Partial int      ` + "`json:\"partial\"`" + `
}

type Res struct {
	G      string     ` + "`json:\"g\"`" + `
	Err    string     ` + "`json:\"err,omitempty\"`" + `
	NStates int       ` + "`json:\"nstates\"`" + `
	T      [][]int    ` + "`json:\"T\"`" + `
	Split  [][]int    ` + "`json:\"split\"`" + `
	Acc    []int      ` + "`json:\"acc\"`" + `
	Ign    []bool     ` + "`json:\"ign\"`" + `
	IgnS   []string   ` + "`json:\"ignS\"`" + `
	TokId  []string   ` + "`json:\"tokid\"`" + `
	TypeOf []int      ` + "`json:\"typeof\"`" + `
	Scans  [][][]Tok  ` + "`json:\"scans\"`" + `
	Panics []string   ` + "`json:\"panics\"`" + `
}

func scanAll(l Lexer, limit, extra int) (toks []Tok, pan string) {
	defer func() {
		if r := recover(); r != nil {
			pan = fmt.Sprint(r)
		}
	}()
	after := -1
	for i := 0; i < limit; i++ {
		t := l.Next()
		toks = append(toks, t)
		if t.Type == 1 && after < 0 {
			after = 0
		} else if after >= 0 {
			after++
		}
		if after >= extra {
			break
		}
	}
	return
}

func main() {
	b, err := os.ReadFile(os.Args[1])
	if err != nil {
		panic(err)
	}
	var ops []Op
	if err := json.Unmarshal(b, &ops); err != nil {
		panic(err)
	}
	var out []Res
	for oi, op := range ops {
		p := pkgs[op.G]
		r := Res{G: op.G}
		if p == nil {
			r.Err = "no such package"
			out = append(out, r)
			continue
		}
		switch op.Op {
		case "dump":
			r.NStates = p.NumStates
			for s := 0; s < p.NumStates; s++ {
				row := make([]int, len(op.Probes))
				for a, rs := range op.Probes {
					row[a] = p.Trans(s, rs[0])
					for _, x := range rs[1:] {
						if p.Trans(s, x) != row[a] {
							r.Split = append(r.Split, []int{s, a + 1})
						}
					}
				}
				r.T = append(r.T, row)
				acc, ign := p.Act(s)
				r.Acc = append(r.Acc, acc)
				r.Ign = append(r.Ign, ign != "")
				r.IgnS = append(r.IgnS, ign)
			}
			for n := 0; n < op.NIds; n++ {
				r.TokId = append(r.TokId, p.TokId(n))
			}
			for _, n := range op.Names {
				r.TypeOf = append(r.TypeOf, p.TokType(n))
			}
		case "scan":
			for ii, in := range op.Inputs {
				fmt.Printf("@@SCAN %d %d\n", oi, ii)
				l := p.New(in)
				var rounds [][]Tok
				pan := ""
				for k := 0; k <= op.Resets && pan == ""; k++ {
					if k > 0 {
						fmt.Printf("@@RESET\n")
						l.Reset()
					}
					var toks []Tok
					if k == 0 && op.Partial > 0 {
						// only a few Scan calls before the first Reset (reset in mid-stream)
						toks, pan = scanAll(l, op.Partial, 1<<30)
					} else {
						toks, pan = scanAll(l, len(in)+4+op.Extra, op.Extra)
					}
					rounds = append(rounds, toks)
				}
				r.Scans = append(r.Scans, rounds)
				r.Panics = append(r.Panics, pan)
			}
			fmt.Printf("@@END\n")
		}
		out = append(out, r)
	}
	ob, _ := json.Marshal(out)
	if err := os.WriteFile(os.Args[2], ob, 0o644); err != nil {
		panic(err)
	}
}
`

const lexDrvGlue = `package main

import (
	lexer "scratch/%[1]s/lexer"
	token "scratch/%[1]s/token"
)

type lex_%[1]s struct{ l *lexer.Lexer }

func (x lex_%[1]s) Next() Tok {
	t := x.l.Scan()
	return Tok{Type: int(t.Type), Lit: t.Lit, Off: t.Pos.Offset, Line: t.Pos.Line, Col: t.Pos.Column}
}
func (x lex_%[1]s) Reset() { x.l.Reset() }

func init() {
	pkgs[%[1]q] = &Pkg{
		NumStates: lexer.NumStates,
		Trans:     func(s int, r rune) int { return lexer.TransTab[s](r) },
		Act:       func(s int) (int, string) { return int(lexer.ActTab[s].Accept), lexer.ActTab[s].Ignore },
		TokId:     func(n int) string { return token.TokMap.Id(token.Type(n)) },
		TokType:   func(s string) int { return int(token.TokMap.Type(s)) },
		New:       func(src []byte) Lexer { return lex_%[1]s{lexer.NewLexer(src)} },
	}
}
`

type drvTok struct {
	Type int    `json:"type"`
	Lit  []byte `json:"lit"`
	Off  int    `json:"off"`
	Line int    `json:"line"`
	Col  int    `json:"col"`
}

type lexOp struct {
	Op     string   `json:"op"`
	G      string   `json:"g"`
	Probes [][]rune `json:"probes,omitempty"`
	NIds   int      `json:"nids,omitempty"`
	Names  []string `json:"names,omitempty"`
	Inputs [][]byte `json:"inputs,omitempty"`
	Resets int      `json:"resets,omitempty"`
	Extra  int      `json:"extra"`
	// Partial: number of Scan calls before the first Reset (0: scan to the end first)
	Partial int `json:"partial,omitempty"`
}

type lexRes struct {
	G       string       `json:"g"`
	Err     string       `json:"err"`
	NStates int          `json:"nstates"`
	T       [][]int      `json:"T"`
	Split   [][]int      `json:"split"`
	Acc     []int        `json:"acc"`
	Ign     []bool       `json:"ign"`
	IgnS    []string     `json:"ignS"`
	TokId   []string     `json:"tokid"`
	TypeOf  []int        `json:"typeof"`
	Scans   [][][]drvTok `json:"scans"`
	Panics  []string     `json:"panics"`
}

// LexDriver is a compiled driver for the lexers generated into the sub-directories subs.
type LexDriver struct {
	m   *Module
	Bin string
	seq int
}

// BuildLexDriver generates and compiles the driver for the given grammar sub-directories.
func (m *Module) BuildLexDriver(name string, subs []string) (*LexDriver, string) {
	dir := filepath.Join(m.Dir, name)
	os.RemoveAll(dir)
	mustWrite(filepath.Join(dir, "main.go"), []byte(lexDrvMain))
	for _, s := range subs {
		mustWrite(filepath.Join(dir, "glue_"+s+".go"), []byte(fmt.Sprintf(lexDrvGlue, s)))
	}
	bin := filepath.Join(dir, "drv")
	out, ok := m.Build(name, bin)
	if !ok {
		return nil, out
	}
	return &LexDriver{m: m, Bin: bin}, ""
}

// Run executes operations; stdout (debug output interleaved with @@ markers) is returned too.
func (d *LexDriver) Run(ops []lexOp) ([]lexRes, string) {
	d.m.c.mu.Lock()
	d.seq++
	n := d.seq
	d.m.c.mu.Unlock()
	in := filepath.Join(filepath.Dir(d.Bin), fmt.Sprintf("ops%d.json", n))
	out := filepath.Join(filepath.Dir(d.Bin), fmt.Sprintf("res%d.json", n))
	mustWrite(in, mustJSON(ops))
	r := runCmd(cmdOpts{Dir: filepath.Dir(d.Bin), Timeout: 10 * time.Minute}, d.Bin, in, out)
	if r.Code != 0 {
		infra("lexer driver failed (code %d, timeout %v):\n%s", r.Code, r.TimedOut, tail(r.Out, 30))
	}
	b, err := os.ReadFile(out)
	if err != nil {
		infra("lexer driver: %v", err)
	}
	var res []lexRes
	if err := json.Unmarshal(b, &res); err != nil {
		infra("lexer driver output: %v", err)
	}
	os.Remove(in)
	os.Remove(out)
	return res, r.Stdout
}

func probesOf(g *LexGrammar) [][]rune {
	var ps [][]rune
	for _, a := range g.Atoms {
		ps = append(ps, a.probes())
	}
	return ps
}

// ---------------------------------------------------------------------------------------
// parsing of -debug_lexer output into step records

type dbgStep struct {
	Pos, Line, Col, State int // before the iteration
	Rune                  int // decoded rune (-1 at end of input)
	Next                  int
	PosAfter, Size        int
	Start, End            int
}

type dbgScan struct {
	Pos   int
	Steps []dbgStep
}

var (
	reDbgScan  = regexp.MustCompile(`^Lexer\.Scan\(\) pos=(\d+)$`)
	reDbgIter  = regexp.MustCompile(`^\tpos=(\d+), line=(\d+), col=(\d+), state=(-?\d+)$`)
	reDbgTrans = regexp.MustCompile(`^\tS(-?\d+), : tok=.*\(([0-9a-f-]+)\), next state == (-?\d+)$`)
	reDbgPos   = regexp.MustCompile(`^\t\tpos=(\d+), size=(\d+), start=(\d+), end=(\d+)$`)
)

func atoi(s string) int { n, _ := strconv.Atoi(s); return n }

// parseDebugLexer splits the stdout of a driver run over -debug_lexer lexers into, per
// (op, input), the list of Scan calls with their loop iterations. Lines that do not match
// (token dumps with arbitrary literal bytes) are skipped; the "S.. rune == X(hex)" line is
// matched from its tail because the rune itself may be any character, including newline.
func parseDebugLexer(stdout string) map[[2]int][][]dbgScan {
	res := map[[2]int][][]dbgScan{}
	var key [2]int
	var cur *[][]dbgScan
	lines := strings.Split(stdout, "\n")
	var pending *dbgStep
	for i := 0; i < len(lines); i++ {
		l := lines[i]
		switch {
		case strings.HasPrefix(l, "@@SCAN "):
			var a, b int
			fmt.Sscanf(l, "@@SCAN %d %d", &a, &b)
			key = [2]int{a, b}
			res[key] = [][]dbgScan{{}}
			v := res[key]
			cur = &v
			_ = cur
		case l == "@@RESET":
			res[key] = append(res[key], []dbgScan{})
		case reDbgScan.MatchString(l):
			m := reDbgScan.FindStringSubmatch(l)
			rounds := res[key]
			rounds[len(rounds)-1] = append(rounds[len(rounds)-1], dbgScan{Pos: atoi(m[1])})
			res[key] = rounds
		case reDbgIter.MatchString(l):
			m := reDbgIter.FindStringSubmatch(l)
			pending = &dbgStep{Pos: atoi(m[1]), Line: atoi(m[2]), Col: atoi(m[3]), State: atoi(m[4])}
			// the transition line follows; the rune may contain a newline, so join lines
			// until the tail matches
			j := i + 1
			acc := ""
			for ; j < len(lines) && j < i+4; j++ {
				if acc == "" {
					acc = lines[j]
				} else {
					acc += "\n" + lines[j]
				}
				if k := strings.LastIndex(acc, "("); k >= 0 && strings.Contains(acc[k:], "next state == ") {
					var hex string
					var nx int
					tailS := acc[k:]
					if _, err := fmt.Sscanf(tailS, "(%s next state == %d", &hex, &nx); err == nil {
						hex = strings.TrimSuffix(hex, "),")
						if hex == "-1" {
							pending.Rune = -1
						} else {
							v, _ := strconv.ParseInt(hex, 16, 32)
							pending.Rune = int(v)
						}
						pending.Next = nx
						break
					}
				}
			}
			if j+1 < len(lines) {
				if m := reDbgPos.FindStringSubmatch(lines[j+1]); m != nil {
					pending.PosAfter, pending.Size, pending.Start, pending.End = atoi(m[1]), atoi(m[2]), atoi(m[3]), atoi(m[4])
				}
			}
			rounds := res[key]
			last := rounds[len(rounds)-1]
			if len(last) > 0 {
				last[len(last)-1].Steps = append(last[len(last)-1].Steps, *pending)
			}
			i = j + 1
		}
	}
	return res
}
