module verif

go 1.23
