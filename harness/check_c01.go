package main

import (
	"fmt"
	"math/rand"
	"time"
)

func init() {
	register("C01", checkC01)
}

// lexProduct explores, with TLC, the product of every real DFA of the batch with the
// pattern semantics (LexProduct.tla). Every disagreement is turned into concrete texts and
// reproduced on the real lexer before it is reported.
func (c *Ctx) lexProduct(b *LexBatch, invariants []string) {
	cases := append([]*LexCase{}, b.Cases...)
	for round := 0; round < 6 && len(cases) > 0; round++ {
		var entries []any
		for _, cs := range cases {
			e := cs.productEntry()
			e["tatoms"] = cs.G.textAtoms()
			entries = append(entries, e)
		}
		cfg := "INIT Init\nNEXT Next\nVIEW View\nCHECK_DEADLOCK FALSE\n"
		for _, inv := range invariants {
			cfg += "INVARIANT " + inv + "\n"
		}
		r := c.RunTLC(TLCOpts{Module: "LexProduct", Cfg: cfg, Files: map[string][]byte{"batch.json": mustJSON(entries)}, Timeout: 30 * time.Minute})
		c.Add("states", r.Distinct)
		c.Add("transitions", r.Generated)
		if r.OK {
			c.Add("products_explored", int64(len(cases)))
			return
		}
		if r.ErrKind != "invariant" || len(r.Trace) == 0 {
			infra("LexProduct: TLC failed (%s) dir=%s\n%s", r.ErrKind, r.Dir, tail(filterTLC(r.Out), 40))
		}
		last := r.Trace[len(r.Trace)-1]
		gi := int(last["g"].(float64)) - 1
		cs := cases[gi]
		if r.InvViolated == "DomainOK" {
			infra("generator produced a grammar outside the domain (nullable token):\n%s", cs.Text)
		}
		var path []int
		for _, a := range last["path"].([]any) {
			path = append(path, int(a.(float64)))
		}
		c.confirmLexDisagreement(cs, path, r.InvViolated, fmt.Sprintf("real DFA state %v vs specification state with verdict; invariant %s", last["q"], r.InvViolated))
		// drop the grammar and look for further disagreements in the rest of the batch
		cases = append(cases[:gi:gi], cases[gi+1:]...)
	}
}

// confirmLexDisagreement reproduces a product counterexample on the real Scan: the path and
// its short extensions are scanned and compared with the reference tokenizer.
func (c *Ctx) confirmLexDisagreement(cs *LexCase, path []int, inv, what string) {
	tas := cs.G.textAtoms()
	var cands [][]int
	cands = append(cands, path)
	if len(path) > 0 {
		cands = append(cands, path[:len(path)-1])
	}
	for _, a := range tas {
		cands = append(cands, append(append([]int{}, path...), a))
	}
	rng := rand.New(rand.NewSource(c.Seed))
	for i := 0; i < 300; i++ {
		p := append([]int{}, path...)
		for k := 0; k < 2+i%3; k++ {
			p = append(p, tas[rng.Intn(len(tas))])
		}
		cands = append(cands, p)
	}
	var inputs [][]byte
	for _, p := range cands {
		if t, ok := cs.G.textOfAtoms(p, 0); ok {
			inputs = append(inputs, t)
		}
	}
	mis := c.lexEndToEnd(cs, inputs, 0, false)
	if len(mis) == 0 {
		infra("product counterexample (%s, path %v) could not be reproduced on the real lexer of\n%s", inv, path, cs.Text)
	}
	m := mis[0]
	c.Violation(Replay{Kind: "lex", What: fmt.Sprintf("lexer of the grammar below, input %q: %s [%s]\n%s", m.In, m.Msg, what, indent(cs.Text)), Data: lexReplayData(cs, m.In, 0, false)})
}

type lexMismatch struct {
	In  []byte
	Msg string
}

// lexEndToEnd scans the inputs with the real lexer and compares with LexRef.
func (c *Ctx) lexEndToEnd(cs *LexCase, inputs [][]byte, resets int, withPos bool) []lexMismatch {
	return c.lexEndToEndMany([]*LexCase{cs}, [][][]byte{inputs}, resets, withPos, nil)[0]
}

// lexEndToEndMany: cases[i] scanned on inputs[i]; one driver run and one TLC evaluation.
func (c *Ctx) lexEndToEndMany(cases []*LexCase, inputs [][][]byte, resets int, withPos bool, drv *LexDriver) [][]lexMismatch {
	out := make([][]lexMismatch, len(cases))
	if drv == nil {
		// stand-alone (confirmation) use: regenerate
		for i, cs := range cases {
			for _, in := range inputs[i] {
				rp := Replay{Kind: "lex", Data: lexReplayData(cs, in, resets, withPos)}
				if bad, msg := replayLex(c, &rp); bad {
					out[i] = append(out[i], lexMismatch{in, msg})
					break
				}
			}
		}
		return out
	}
	var ops []lexOp
	var refs []refIn
	for i, cs := range cases {
		ops = append(ops, lexOp{Op: "scan", G: cs.Sub, Inputs: inputs[i], Resets: resets, Extra: 2})
		ri := refIn{Abs: cs.Abs}
		for _, in := range inputs[i] {
			ri.Srcs = append(ri.Srcs, cs.G.srcRunes(in))
		}
		refs = append(refs, ri)
	}
	res, _ := drv.Run(ops)
	ref := c.lexRefEval(refs)
	for i, cs := range cases {
		for j, in := range inputs[i] {
			c.Add("traces_validated_against_impl", 1)
			for k, round := range res[i].Scans[j] {
				if msg := compareStreams(in, round, ref[i][j], cs.Dump.TokId, &cs.Abs, withPos, res[i].Panics[j]); msg != "" {
					if k > 0 {
						msg = fmt.Sprintf("after Reset #%d: %s", k, msg)
					}
					out[i] = append(out[i], lexMismatch{in, msg + "; real tokens: " + describeToks(round, cs.Dump.TokId)})
					break
				}
			}
		}
	}
	return out
}

// lexInputs builds the input family for one grammar: all atom strings up to length k over
// the atoms the grammar mentions plus two unmentioned ones (capped), and random byte strings
// including ill-formed UTF-8.
func lexInputs(rng *rand.Rand, g *LexGrammar, k, cap, nRandom int) [][]byte {
	var used, gaps []int
	for _, a := range g.textAtoms() {
		if g.Atoms[a-1].Used {
			used = append(used, a)
		} else {
			gaps = append(gaps, a)
		}
	}
	alpha := append([]int{}, used...)
	if len(gaps) > 0 {
		alpha = append(alpha, gaps[rng.Intn(len(gaps))])
	}
	var all [][]int
	var rec func(p []int)
	rec = func(p []int) {
		if len(p) > 0 {
			all = append(all, append([]int{}, p...))
		}
		if len(p) == k {
			return
		}
		for _, a := range alpha {
			rec(append(p, a))
		}
	}
	if pow(len(alpha), k) <= 4*cap {
		rec(nil)
		rng.Shuffle(len(all), func(i, j int) { all[i], all[j] = all[j], all[i] })
	} else {
		for i := 0; i < cap; i++ {
			n := 1 + rng.Intn(k+2)
			p := make([]int, n)
			for j := range p {
				p[j] = alpha[rng.Intn(len(alpha))]
			}
			all = append(all, p)
		}
	}
	if len(all) > cap {
		all = all[:cap]
	}
	inputs := [][]byte{{}}
	for i, p := range all {
		if t, ok := g.textOfAtoms(p, i); ok {
			inputs = append(inputs, t)
		}
	}
	// random bytes, biased towards the grammar's own characters, with raw invalid bytes
	for i := 0; i < nRandom; i++ {
		n := 1 + rng.Intn(12)
		var b []byte
		for j := 0; j < n; j++ {
			switch rng.Intn(10) {
			case 0:
				if rng.Intn(2) == 0 {
					b = append(b, byte(0x80+rng.Intn(0x80))) // stray continuation / invalid lead byte
				} else {
					b = append(b, "\x80\xbf\xc0\xc2\xe0\xed\xf4\xf5\xff"[rng.Intn(9)])
				}
			case 1:
				b = append(b, "\n\r\t "[rng.Intn(4)])
			default:
				t, _ := g.textOfAtoms([]int{alpha[rng.Intn(len(alpha))]}, rng.Intn(3))
				b = append(b, t...)
			}
		}
		inputs = append(inputs, b)
	}
	// ill-formed UTF-8, one shape at a time, alone and between two pieces of the grammar's own
	// text: every byte that is not part of a well-formed sequence is one U+FFFD to the lexer
	var piece []byte
	if len(used) > 0 {
		piece, _ = g.textOfAtoms([]int{used[rng.Intn(len(used))]}, 0)
	}
	for _, ill := range illFormed {
		inputs = append(inputs, []byte(ill), append(append(append([]byte{}, piece...), ill...), piece...))
	}
	return inputs
}

// illFormed: stray continuation bytes, lead bytes without continuation, truncated sequences,
// overlong forms, surrogates, values beyond U+10FFFF, bytes that never occur in UTF-8.
var illFormed = []string{"\x80", "\xbf", "\xc0", "\xc1", "\xc2", "\xe0", "\xe0\x80", "\xe0\xa0", "\xed\xa0\x80", "\xf0\x90\x80",
	"\xf4\x90\x80\x80", "\xf5", "\xf8", "\xfe", "\xff", "\xc0\x80", "\xe0\x9f\xbf", "\xf0\x8f\xbf\xbf", "\x80\x80", "\xc2\xc2\x80"}

func pow(a, b int) int {
	r := 1
	for i := 0; i < b; i++ {
		r *= a
		if r > 1<<30 {
			return r
		}
	}
	return r
}

var c01Opts = lexGenOpts{MaxToks: 5, MaxIgn: 2, MaxDefs: 3, MaxLits: 2, Depth: 3, NullableStars: true}

func checkC01(c *Ctx) {
	c.Level = "model_checking"
	total := c.pick(48, 640)
	bs := c.pick(48, 160)
	c.Assume("domain: no token pattern matches the empty string; no recursive regular definition; regular definitions drawn from the conflation-free classes CF-a/b/c of DESIGN.md (finding F4 lives outside them)")
	c.Assume("atoms (coarsest partition of the code points respecting every literal and range of the grammar) are computed by the harness; each real transition function is evaluated on first/last/middle rune of every atom")
	c.Set("rule", "seeded random lexical grammars (1-5 tokens, 0-2 ignored tokens, 0-3 regular definitions, 0-2 syntax-part string literals, nesting depth <= 3, runes straddling all UTF-8 widths); per grammar the WHOLE reachable product of the real DFA with the pattern semantics is explored by TLC (all texts), then real Scan runs on atom strings and random bytes are compared with the TLA+ reference tokenizer; distinct_nontrivial counts accepted grammars with >= 3 DFA states")
	rng := rand.New(rand.NewSource(c.Seed))
	// design level: gocc's own item-set construction (LexItems.tla) against the macro-expansion
	// semantics (Regex.tla) on every tiny grammar with one regular definition: they agree on the
	// conflation-free classes used below and differ outside (finding F4)
	c.lexItemsDesign(2, c.pick(3, 4))
	defer func() {
		if c.Quick() {
			return
		}
		// binding of LexItems.tla to the code on unrestricted regular definitions (informational:
		// it says whether the model still describes the generator, not whether C01 holds)
		var gs []*LexGrammar
		for _, t := range tinyLexFamily(2, 3) {
			if t.Class == "" && len(gs) < 300 {
				gs = append(gs, t.G)
			}
		}
		gs = append(gs, kfLex()...)
		n, bad := c.lexItemsBinding(gs)
		c.Set("lexitems_model_vs_real_generator", map[string]any{"grammars_with_unrestricted_regdefs": n, "disagreements": len(bad)})
		if len(bad) > 0 {
			fmt.Printf("NOTE: LexItems.tla no longer describes the generator on %d of %d grammars with unrestricted regular definitions, e.g.\n%s\n", len(bad), n, indent(bad[0]))
		}
	}()
	for done := 0; done < total; done += bs {
		n := bs
		if total-done < n {
			n = total - done
		}
		gs := make([]*LexGrammar, n)
		for i := range gs {
			gs[i] = genLexGrammar(rng, c01Opts)
		}
		if done == 0 {
			// the lexical parts of the repository's own grammars (read by the independent reader),
			// as far as they lie in the domain of this check
			in, out := 0, 0
			for _, f := range repoGrammars() {
				if f.Lex == nil || len(f.Lex.Defs) == 0 {
					continue
				}
				if ok, _ := f.Lex.lexInDomain(); ok {
					gs = append(gs, f.Lex)
					in++
				} else {
					out++
				}
			}
			c.Set("repository_lexical_parts", map[string]int{"in_domain_checked": in, "outside_domain_skipped": out})
			gs = append(gs, curatedLex()...)
		}
		b := c.buildLexBatch(fmt.Sprintf("lex%d", done), gs)
		c.Add("evaluations", int64(len(b.Cases)))
		for _, cs := range b.Cases {
			if cs.Dump.NStates >= 3 {
				c.Distinct(cs.Text)
			}
			if len(cs.Dump.Split) > 0 {
				c.reportSplit(cs)
			}
		}
		c.lexProduct(b, []string{"LiveAgree", "VerdictAgree", "DomainOK"})
		// end-to-end redundancy: real Scan vs reference tokenizer
		inputs := make([][][]byte, len(b.Cases))
		for i, cs := range b.Cases {
			inputs[i] = lexInputs(rng, cs.G, c.pick(3, 4), c.pick(40, 150), c.pick(10, 40))
		}
		mis := c.lexEndToEndMany(b.Cases, inputs, 0, false, b.Drv)
		for i, ms := range mis {
			if len(ms) > 0 {
				cs := b.Cases[i]
				c.Violation(Replay{Kind: "lex", What: fmt.Sprintf("lexer of the grammar below, input %q: %s\n%s", ms[0].In, ms[0].Msg, indent(cs.Text)), Data: lexReplayData(cs, ms[0].In, 0, false)})
			}
		}
		if done == 0 && len(b.Cases) > 0 {
			c.Sample(map[string]any{"grammar": b.Cases[0].Text, "dfa_states": b.Cases[0].Dump.NStates, "atoms": len(b.Cases[0].G.Atoms), "inputs": fmt.Sprintf("%q", inputs[0][:min(5, len(inputs[0]))])})
			if len(b.Cases) > 1 {
				c.Sample(map[string]any{"grammar": b.Cases[1].Text, "dfa_states": b.Cases[1].Dump.NStates})
			}
		}
	}
}

// reportSplit: a real transition function distinguishes two runes of one atom, i.e. a class
// boundary that is no end point of any literal or range of the grammar.
func (c *Ctx) reportSplit(cs *LexCase) {
	s := cs.Dump.Split[0]
	at := cs.G.Atoms[s[1]-1]
	var in []byte
	for _, r := range at.reps() {
		in = append(in, string(r)...)
	}
	c.Violation(Replay{Kind: "lex", What: fmt.Sprintf("state %d of the generated lexer distinguishes runes of the class [%#x,%#x], which no literal or range of the grammar separates\n%s", s[0], at.Lo, at.Hi, indent(cs.Text)), Data: lexReplayData(cs, in, 0, false)})
}
