package main

import (
	"encoding/json"
	"fmt"
	"math/rand"
	"os"
	"path/filepath"
	"regexp"
	"strings"
	"time"
)

func init() {
	register("C14", checkC14)
	replayers["gocc-reject"] = replayGoccReject
}

// gtok is a token of a grammar file as the documented lexical grammar classifies it.
type gtok struct {
	Kind string // terminal name of spec/gocc2.ebnf: tokId prodId regDefId ignoredTokId char_lit string_lit g_sdt_lit or a punctuation literal
	Text string
}

var reGTok = regexp.MustCompile("(?s)^(?:(\\s+|//[^\\n]*|/\\*.*?\\*/)|(<<.*?>>)|('(?:\\\\.|[^'\\\\])+')|(\"[^\"]*\"|`[^`]*`)|([A-Za-z_!][A-Za-z0-9_]*)|(.))")

// tokenizeGrammar splits a grammar text rendered by this harness into tokens (identifier
// classes by first character, literals, punctuation). Only used on texts the harness itself
// rendered or re-rendered token by token, so the classification is by construction.
func tokenizeGrammar(src string) []gtok {
	var ts []gtok
	for len(src) > 0 {
		m := reGTok.FindStringSubmatch(src)
		if m == nil {
			return nil
		}
		src = src[len(m[0]):]
		switch {
		case m[1] != "":
		case m[2] != "":
			ts = append(ts, gtok{"g_sdt_lit", m[2]})
		case m[3] != "":
			ts = append(ts, gtok{"char_lit", m[3]})
		case m[4] != "":
			ts = append(ts, gtok{"string_lit", m[4]})
		case m[5] != "":
			id := m[5]
			k := "tokId"
			switch {
			case id == "error" || id == "empty":
				k = id
			case id[0] == '_':
				k = "regDefId"
			case id[0] == '!':
				k = "ignoredTokId"
			case id[0] >= 'A' && id[0] <= 'Z':
				k = "prodId"
			}
			ts = append(ts, gtok{k, id})
		default:
			ts = append(ts, gtok{m[6], m[6]})
		}
	}
	return ts
}

func renderTokens(ts []gtok) string {
	var sb strings.Builder
	for i, t := range ts {
		sb.WriteString(t.Text)
		if t.Text == ";" {
			sb.WriteString("\n")
		} else if i+1 < len(ts) {
			sb.WriteString(" ")
		}
	}
	sb.WriteString("\n")
	return sb.String()
}

// c14Case: one grammar file with what the specification needs to judge it.
type c14Case struct {
	Text string
	Toks []gtok
	How  string
}

// structure extracts definitions and references from a token list (only meaningful when the
// token sequence is a sentence; for non-sentences the syntax verdict decides alone).
func structureOf(ts []gtok) (lexdefs [][2]string, regrefs, prodheads, prodrefs []string) {
	lexdefs, regrefs, prodheads, prodrefs = [][2]string{}, []string{}, []string{}, []string{}
	// statements are separated by ';' at top level; head is the first token, followed by ':'
	start := 0
	for i, t := range ts {
		if t.Kind != ";" {
			continue
		}
		st := ts[start:i]
		start = i + 1
		// the file header (one action-expression literal) stands directly before the first syntax
		// production: it belongs to no production (where else such a literal in front of a head is
		// no sentence, the syntax verdict decides alone)
		if len(st) >= 3 && st[0].Kind == "g_sdt_lit" && st[1].Kind == "prodId" && st[2].Kind == ":" {
			st = st[1:]
		}
		if len(st) < 2 || st[1].Kind != ":" {
			continue
		}
		h := st[0]
		switch h.Kind {
		case "tokId":
			lexdefs = append(lexdefs, [2]string{h.Text, "tok"})
		case "ignoredTokId":
			lexdefs = append(lexdefs, [2]string{h.Text, "ign"})
		case "regDefId":
			lexdefs = append(lexdefs, [2]string{h.Text, "def"})
		case "prodId":
			prodheads = append(prodheads, h.Text)
		}
		for _, b := range st[2:] {
			if h.Kind == "prodId" && b.Kind == "prodId" {
				prodrefs = append(prodrefs, b.Text)
			}
			if h.Kind != "prodId" && b.Kind == "regDefId" {
				regrefs = append(regrefs, b.Text)
			}
		}
	}
	return
}

var c14Punct = []string{":", ";", "|", ".", "-", "[", "]", "{", "}", "(", ")"}

func c14Mutants(rng *rand.Rand, base []gtok, n int) []c14Case {
	var out []c14Case
	spell := map[string]string{"tokId": "zz", "prodId": "Zz", "regDefId": "_zz", "ignoredTokId": "!zz", "char_lit": "'z'", "string_lit": "\"z\"", "g_sdt_lit": "<< nil, nil >>"}
	kinds := append([]string{"tokId", "prodId", "regDefId", "ignoredTokId", "char_lit", "string_lit", "g_sdt_lit"}, c14Punct...)
	mk := func(k string) gtok {
		if s, ok := spell[k]; ok {
			return gtok{k, s}
		}
		return gtok{k, k}
	}
	for len(out) < n {
		ts := append([]gtok{}, base...)
		how := ""
		switch op := rng.Intn(7); op {
		case 0: // deletion
			j := rng.Intn(len(ts))
			how = fmt.Sprintf("token %d (%s) deleted", j, ts[j].Text)
			ts = append(ts[:j], ts[j+1:]...)
		case 1: // insertion
			j := rng.Intn(len(ts) + 1)
			t := mk(kinds[rng.Intn(len(kinds))])
			how = fmt.Sprintf("token %s inserted at %d", t.Text, j)
			ts = append(ts[:j], append([]gtok{t}, ts[j:]...)...)
		case 2: // substitution
			j := rng.Intn(len(ts))
			t := mk(kinds[rng.Intn(len(kinds))])
			how = fmt.Sprintf("token %d (%s) replaced by %s", j, ts[j].Text, t.Text)
			ts[j] = t
		case 3: // reference renaming to a fresh name
			var cand []int
			for j, t := range ts {
				if (t.Kind == "prodId" || t.Kind == "regDefId") && j > 0 && !(j+1 < len(ts) && ts[j+1].Kind == ":" && (j == 0 || ts[j-1].Kind == ";")) {
					cand = append(cand, j)
				}
			}
			if len(cand) == 0 {
				continue
			}
			j := cand[rng.Intn(len(cand))]
			fresh := "Fresh9"
			if ts[j].Kind == "regDefId" {
				fresh = "_fresh9"
			}
			how = fmt.Sprintf("reference %s at %d renamed to the undefined %s", ts[j].Text, j, fresh)
			ts[j] = gtok{ts[j].Kind, fresh}
		case 4: // duplication of a lexical definition
			var starts []int
			for j, t := range ts {
				if (j == 0 || ts[j-1].Kind == ";") && j+1 < len(ts) && ts[j+1].Kind == ":" && (t.Kind == "tokId" || t.Kind == "ignoredTokId" || t.Kind == "regDefId") {
					starts = append(starts, j)
				}
			}
			if len(starts) == 0 {
				continue
			}
			j := starts[rng.Intn(len(starts))]
			k := j
			for ts[k].Kind != ";" {
				k++
			}
			dup := append([]gtok{}, ts[j:k+1]...)
			how = fmt.Sprintf("definition of %s duplicated", ts[j].Text)
			ts = append(ts[:k+1], append(dup, ts[k+1:]...)...)
		case 6: // a character sequence that is no token of the documented language
			mid := []string{"/", "/", "/", "#", "@", "$", "=", "+", "*", ",", "~", "!", "<", ">", "''", "'ab'", "0", "%", "^", "&", "?", "\\"}
			end := []string{"'", "\"", "`", "<<", "/*", "\"abc", "'a", "<< nil", "/* note", "/", "/", "/ x"}
			var t gtok
			j := rng.Intn(len(ts) + 1)
			switch r := rng.Intn(10); {
			case r < 2:
				j = len(ts)
				t = gtok{"illegal", end[rng.Intn(len(end))]}
			case r < 4:
				j = len(ts)
				t = gtok{"illegal", mid[rng.Intn(len(mid))]}
			case r < 5:
				j = 0
				t = gtok{"illegal", mid[rng.Intn(len(mid))]}
			default:
				t = gtok{"illegal", mid[rng.Intn(len(mid))]}
			}
			how = fmt.Sprintf("the characters %s, which form no token, inserted at %d", t.Text, j)
			ts = append(ts[:j:j], append([]gtok{t}, ts[j:]...)...)
		case 5: // an alternative left empty
			var bars []int
			for j, t := range ts {
				if t.Kind == ";" && j > 2 {
					bars = append(bars, j)
				}
			}
			if len(bars) == 0 {
				continue
			}
			j := bars[rng.Intn(len(bars))]
			how = fmt.Sprintf("empty alternative (\"|\" without body) added before token %d", j)
			ts = append(ts[:j], append([]gtok{{"|", "|"}}, ts[j:]...)...)
		}
		if len(ts) == 0 {
			continue
		}
		// F8 lives where the words error/empty are tokens: mutants never contain them
		skip := false
		for _, t := range ts {
			if t.Kind == "error" || t.Kind == "empty" {
				skip = true
			}
		}
		if skip {
			continue
		}
		// comments are no tokens: some files carry them (rendering only)
		shown := ts
		if rng.Intn(3) == 0 {
			shown = append([]gtok{}, ts...)
			for n := 1 + rng.Intn(2); n > 0; n-- {
				j := rng.Intn(len(shown) + 1)
				if j == len(shown) && len(shown) > 0 && shown[j-1].Kind == "illegal" {
					j-- // nothing may follow an unterminated literal or comment at the end of the file
				}
				cm := gtok{"comment", "/* note */"}
				if rng.Intn(2) == 0 {
					cm = gtok{"comment", "// note\n"}
				}
				shown = append(shown[:j:j], append([]gtok{cm}, shown[j:]...)...)
			}
		}
		out = append(out, c14Case{Text: renderTokens(shown), Toks: ts, How: how})
	}
	return out
}

type c14Verdict struct {
	Syntax    bool `json:"syntax"`
	UndefProd bool `json:"undefprod"`
	UndefReg  bool `json:"undefreg"`
	DupDef    bool `json:"dupdef"`
}

func (v c14Verdict) ill() bool { return !v.Syntax || v.UndefProd || v.UndefReg || v.DupDef }

// c14Judge evaluates GoccSyntax.tla on the cases.
func (c *Ctx) c14Judge(cs []c14Case) []c14Verdict {
	b, err := os.ReadFile(filepath.Join(repoRoot, "spec", "gocc2.ebnf"))
	if err != nil {
		infra("read spec/gocc2.ebnf: %v", err)
	}
	g, err := readEbnfSyntax(string(b))
	if err != nil {
		infra("spec/gocc2.ebnf: %v", err)
	}
	term := map[string]int{}
	for i, t := range g.Terms {
		term[t] = i + 2
	}
	abs := g.abstract()
	abs.Err = 0
	var cases []map[string]any
	for _, x := range cs {
		toks := []int{}
		for _, t := range x.Toks {
			id, ok := term[t.Kind]
			if !ok {
				id = 0 // a character that is no token of the documented language
			}
			toks = append(toks, id)
		}
		ld, rr, ph, pr := structureOf(x.Toks)
		cases = append(cases, map[string]any{"toks": toks, "lexdefs": ld, "regrefs": rr, "prodheads": ph, "prodrefs": pr})
	}
	r := c.RunTLC(TLCOpts{Module: "GoccSyntax", Cfg: "LexRefEval.cfg", Workers: 1, Timeout: 40 * time.Minute, Files: map[string][]byte{"cases.json": mustJSON(map[string]any{"g": abs, "cases": cases})}})
	r.mustOK("GoccSyntax")
	vb, err := os.ReadFile(filepath.Join(r.Dir, "verdicts.json"))
	if err != nil {
		infra("GoccSyntax wrote no verdicts")
	}
	var vs []c14Verdict
	if err := json.Unmarshal(vb, &vs); err != nil || len(vs) != len(cs) {
		infra("verdicts.json: %v", err)
	}
	c.Add("states", int64(len(cs)))
	c.Add("transitions", int64(len(cs)))
	return vs
}

func checkC14(c *Ctx) {
	c.Level = "model_checking"
	c.Set("rule", "base grammars rendered by the harness are tokenised by construction; seeded mutation operators (token deletion/insertion/substitution from the whole token alphabet, insertion of character sequences that form no token (stray punctuation, malformed and unterminated literals and comments), comments sprinkled over a third of the files, reference renaming to a fresh name, duplication of a lexical definition, an alternative left empty) produce grammar files; GoccSyntax.tla judges every file: the token sequence is run through the canonical LR(1) machine of spec/gocc2.ebnf computed by LR1.tla (independent of the shipped tables), definitions/references are checked for undefined and duplicate names; for every file judged ill-formed the real gocc must exit non-zero. One-directional (ill => refused). distinct_nontrivial counts distinct ill-formed files")
	c.Assume("mutants never contain the words error/empty (known finding F8: gocc's scanner treats them as token identifiers); the unmutated base files must be judged well-formed (self-check of the judge)")
	rng := rand.New(rand.NewSource(c.Seed))
	var all []c14Case
	nb := c.pick(12, 400)
	per := c.pick(30, 60)
	for i := 0; i < nb; i++ {
		var text string
		if i%3 == 2 {
			text = genLexGrammar(rng, lexGenOpts{MaxToks: 3, MaxIgn: 1, MaxDefs: 2, MaxLits: 0, Depth: 2}).render()
		} else if i%6 == 1 {
			// a file with a syntax part only: every terminal is a string literal
			o := c02Opts
			o.PEmpty, o.PLit, o.Actions, o.POptRun = 0, 1.0, false, 0
			g := genSynGrammar(rng, o)
			allLit := true
			for _, l := range g.IsLit {
				allLit = allLit && l
			}
			g.NoLexDefs = allLit
			text = g.render()
		} else {
			o := c02Opts
			o.PEmpty = 0
			o.Actions = false
			g := genSynGrammar(rng, o)
			for pi := range g.Prods {
				if rng.Intn(3) == 0 {
					g.Prods[pi].Action = "nil, nil"
				}
			}
			text = g.render()
		}
		base := tokenizeGrammar(text)
		if base == nil || len(base) < 4 {
			continue
		}
		hasKw := false
		for _, t := range base {
			if t.Kind == "error" || t.Kind == "empty" {
				hasKw = true
			}
		}
		if hasKw {
			continue
		}
		all = append(all, c14Case{Text: renderTokens(base), Toks: base, How: "base"})
		all = append(all, c14Mutants(rng, base, per)...)
	}
	vs := c.c14Judge(all)
	m := c.NewModule("c14")
	runs := make([]GoccRun, len(all))
	parallel(len(all), func(i int) {
		if all[i].How == "base" || vs[i].ill() {
			runs[i] = m.GoccExt(fmt.Sprintf("g%04d", i), "g.bnf", []byte(all[i].Text), 60*time.Second, "-a")
		}
	})
	nIll := 0
	for i, x := range all {
		if x.How == "base" {
			if vs[i].ill() {
				infra("the judge calls an unmutated base grammar ill-formed (%+v):\n%s", vs[i], x.Text)
			}
			continue
		}
		if !vs[i].ill() {
			c.Add("mutants_judged_wellformed_skipped", 1)
			continue
		}
		nIll++
		c.Add("evaluations", 1)
		c.Distinct(x.Text)
		if nIll%97 == 1 {
			c.Sample(map[string]any{"mutation": x.How, "verdict": vs[i], "gocc_exit": runs[i].Code, "file": x.Text})
		}
		if runs[i].TimedOut {
			continue // termination is C09's subject
		}
		if runs[i].Code == 0 && c.firstFor(x.Text) {
			c.Violation(Replay{Kind: "gocc-reject", What: fmt.Sprintf("gocc exits 0 on an ill-formed grammar file (%s; judged: sentence of spec/gocc2.ebnf=%v undefined production=%v undefined regdef=%v duplicate definition=%v)\n%s", x.How, vs[i].Syntax, vs[i].UndefProd, vs[i].UndefReg, vs[i].DupDef, indent(x.Text)),
				Data: map[string]any{"text": x.Text, "flags": []string{"-a"}}})
		}
	}
}

// replayGoccReject: the file must be refused (non-zero exit status).
func replayGoccReject(c *Ctx, r *Replay) (bool, string) {
	text, _ := r.Data["text"].(string)
	var flags []string
	if f, ok := r.Data["flags"].([]any); ok {
		for _, x := range f {
			flags = append(flags, fmt.Sprint(x))
		}
	}
	c.mu.Lock()
	c.tlcSeq++
	tag := fmt.Sprintf("rej%03d", c.tlcSeq)
	c.mu.Unlock()
	m := c.NewModule(tag)
	run := m.GoccExt("g000", "g.bnf", []byte(text), 60*time.Second, flags...)
	if run.TimedOut {
		return false, "gocc did not terminate (not a C14 verdict)"
	}
	if run.Code == 0 {
		// judge the file again (the recorded verdict is not trusted): only a file that the
		// specification calls ill-formed must be refused
		if ts := tokenizeGrammar(text); ts != nil {
			clean := true
			for _, t := range ts {
				if t.Kind == "error" || t.Kind == "empty" {
					clean = false // known finding F8 lives there
				}
			}
			if v := c.c14Judge([]c14Case{{Text: text, Toks: ts}})[0]; clean && !v.ill() {
				return false, "gocc exits 0 and GoccSyntax.tla judges the file well-formed"
			}
		}
		return true, "gocc exits 0: " + strings.TrimSpace(tail(run.Out, 2))
	}
	return false, fmt.Sprintf("refused with exit status %d", run.Code)
}
