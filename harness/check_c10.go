package main

import (
	"fmt"
	"math/rand"
	"os"
	"path/filepath"
	"strings"
	"time"
)

func init() {
	register("C10", checkC10)
	replayers["tokmap"] = replayTokMap
}

var hostileLits = []string{`"`, `\`, "`", `a"b`, `\n`, `\\`, `%d`, `{{`, `}}`, `*/`, `/*`, `x y`, ` `, `é`, `日本`, `'`, `'a'`, `<<`, `>>`, `$0`, "\t", `a\`, `"q"`, "EOF", "unknown", "Type", "nil"}

// tokMapEntry builds the record TokenMap.tla reads from a lexer-side or parser-side dump.
func tokMapEntry(terms []string, tokid []string, typeOf []int, unknown []int, lexacc [][2]any, ncols int) map[string]any {
	if lexacc == nil {
		lexacc = [][2]any{}
	}
	eof := ""
	if len(tokid) > 1 {
		eof = tokid[1]
	}
	return map[string]any{"terms": terms, "id": tokid, "typ": typeOf, "unknown": unknown, "lexacc": lexacc, "ncols": ncols, "eofname": eof}
}

func checkC10(c *Ctx) {
	c.Level = "model_checking"
	c.Set("rule", "for lexer-only, parser-only (-no_lexer) and combined grammars with ordinary and hostile terminal spellings, the behaviour of the generated token.TokMap is observed by calling Id/Type in the compiled package; TLC checks the numbering, mutual inverse and unknown-name rules of TokenMap.tla on every observed map, and the product checks (LexProduct / LRProduct) pair lexer accept numbers and parser columns with the specification BY NAME THROUGH THE REAL MAP over all reachable states, so a skew between the three packages is a reachable disagreement. distinct_nontrivial counts grammars with >= 3 terminals")
	c.Assume("terminal spellings are limited to the Basic Multilingual Plane (TLC's JSON reader does not preserve supplementary characters)")
	c.Assume("`empty` and `error`, which gocc's scanner treats as token identifiers, count as terminals when a grammar uses them")
	rng := rand.New(rand.NewSource(c.Seed))
	var entries []map[string]any
	var texts []string
	var flagsOf [][]string

	// ---- lexer-only and combined-through-literals grammars
	var lgs []*LexGrammar
	lgs = append(lgs, curatedLex()...)
	for i := 0; i < c.pick(30, 300); i++ {
		o := c01Opts
		o.MaxLits = 3
		lgs = append(lgs, genLexGrammar(rng, o))
	}
	// hostile spellings also on the lexer's side (its action table names or numbers the tokens)
	for i, g := range lgs {
		if len(g.Lits) == 0 || i%2 == 1 {
			continue
		}
		h := hostileLits[(i/2)%len(hostileLits)]
		dup := strings.ContainsAny(h, "\"\\") && strings.Contains(h, "`")
		for _, l := range g.Lits {
			dup = dup || l == h
		}
		if !dup {
			g.Lits[0] = h
			g.computeAtoms()
		}
	}
	// half of the grammars are generated with -v: the terminals are listed once more for
	// terminals.txt on that path
	var lgsPlain, lgsV []*LexGrammar
	for i, g := range lgs {
		if i%2 == 0 {
			lgsPlain = append(lgsPlain, g)
		} else {
			lgsV = append(lgsV, g)
		}
	}
	lb := c.buildLexBatch("c10lex", lgsPlain)
	lbv := c.buildLexBatch("c10lexv", lgsV, "-v")
	for _, cs := range append(append([]*LexCase{}, lb.Cases...), lbv.Cases...) {
		var terms []string
		for _, t := range cs.Abs.Toks {
			if t.Kind == "tok" {
				if strings.ContainsFunc(t.Name, func(r rune) bool { return r > 0xffff }) {
					terms = nil
					break
				}
				terms = append(terms, t.Name)
			}
		}
		if terms == nil {
			continue
		}
		var lexacc [][2]any
		for q, a := range cs.Dump.Acc {
			_ = q
			if a >= 2 && a < len(cs.Dump.TokId) {
				lexacc = append(lexacc, [2]any{a, cs.Dump.TokId[a]})
			}
		}
		// TypeOf was requested for the token names in Abs order (kind tok only)
		entries = append(entries, tokMapEntry(terms, cs.Dump.TokId, cs.Dump.TypeOf, []int{0}, nil, 0))
		texts = append(texts, cs.Text)
		flagsOf = append(flagsOf, cs.Flags)
		if len(terms) >= 3 {
			c.Distinct(cs.Text)
		}
	}
	c.lexProduct(lb, []string{"VerdictAgree", "LiveAgree"})
	c.lexProduct(lbv, []string{"VerdictAgree", "LiveAgree"})
	c.Add("evaluations", int64(len(lb.Cases)+len(lbv.Cases)))

	// ---- combined and parser-only grammars, hostile literal spellings
	var sgs []*SynGrammar
	var sflags [][]string
	for i := 0; i < c.pick(50, 400); i++ {
		o := c02Opts
		o.PLit = 0.5
		g := genSynGrammar(rng, o)
		// replace some literals by hostile spellings
		used := map[string]bool{}
		for _, t := range g.Terms {
			used[t] = true
		}
		for k := range g.Terms {
			if g.IsLit[k] && rng.Intn(2) == 0 {
				// every spelling of the pool is used in every run: the pool is walked, not sampled
				h := hostileLits[(i*2+k)%len(hostileLits)]
				if !used[h] && !(strings.ContainsAny(h, "\"\\") && strings.Contains(h, "`")) {
					used[h] = true
					g.Terms[k] = h
				}
			}
		}
		fl := []string{"-a"}
		if i%3 == 0 {
			g.NoLexDefs = true
			fl = []string{"-a", "-no_lexer"}
		}
		if i%4 == 1 {
			fl = append(fl, "-v")
		}
		sgs = append(sgs, g)
		sflags = append(sflags, fl)
	}
	sb := c.buildSynBatchFlags("c10syn", sgs, sflags)
	var pcases []*SynCase
	for _, cs := range sb.Cases {
		if cs.Run.Code != 0 || cs.Run.TimedOut {
			continue
		}
		if !cs.Built {
			// status zero but the packages do not build: C10's concern only if it is the token package
			if _, ok := sb.M.BuildPkgs("./" + cs.Sub + "/token"); ok {
				continue
			}
			if c.firstFor(cs.Text) {
				terms := append([]string{}, cs.G.Terms...)
				for _, p := range cs.G.Prods {
					if len(p.Body) == 0 {
						terms = append(terms, "empty")
						break
					}
				}
				c.Violation(Replay{Kind: "tokmap", What: "gocc exited 0 but the generated token/parser packages do not compile (terminal spelling breaks the token map)\n" + indent(cs.Text), Data: map[string]any{"grammar": cs.Text, "flags": cs.Flags, "terms": terms}})
			}
			continue
		}
		terms := append([]string{}, cs.G.Terms...)
		typeOf := append([]int{}, cs.Col[1:]...)
		hasEmpty := false
		for _, p := range cs.G.Prods {
			if len(p.Body) == 0 {
				hasEmpty = true
			}
		}
		if hasEmpty {
			terms = append(terms, "empty")
			ty := -1
			for n, id := range cs.TokId {
				if id == "empty" {
					ty = n
				}
			}
			typeOf = append(typeOf, ty)
		}
		entries = append(entries, tokMapEntry(terms, cs.TokId, typeOf, []int{0}, nil, cs.Tables.NCols))
		texts = append(texts, cs.Text)
		flagsOf = append(flagsOf, cs.Flags)
		if p := cs.pairingProblem(); p == "" {
			pcases = append(pcases, cs)
		}
		if len(terms) >= 3 {
			c.Distinct(cs.Text)
		}
	}
	c.Add("evaluations", int64(len(sb.Cases)))
	if len(pcases) > 0 {
		c.lrProduct(pcases, []string{"ActionAgree", "LiveAgree", "NoStrayEntries"}, "C10")
	}

	// ---- TLC judges every observed map
	live := entries
	idx := make([]int, len(entries))
	for i := range idx {
		idx[i] = i
	}
	for round := 0; round < 8 && len(live) > 0; round++ {
		r := c.RunTLC(TLCOpts{Module: "TokenMap", Cfg: "TokenMap.cfg", Workers: 1, Timeout: 20 * time.Minute, Files: map[string][]byte{"tokmaps.json": mustJSON(live)}})
		c.Add("states", r.Distinct)
		c.Add("transitions", r.Generated)
		if r.OK {
			break
		}
		if r.ErrKind != "invariant" || len(r.Trace) == 0 {
			infra("TokenMap: TLC failed (%s) dir=%s\n%s", r.ErrKind, r.Dir, tail(filterTLC(r.Out), 30))
		}
		gi := int(r.Trace[len(r.Trace)-1]["g"].(float64)) - 1
		k := idx[gi]
		if c.firstFor(texts[k]) {
			c.Violation(Replay{Kind: "tokmap", What: fmt.Sprintf("generated token map violates %s: Id = %q, Type(terminals %q) = %v\n%s", r.InvViolated, live[gi]["id"], live[gi]["terms"], live[gi]["typ"], indent(texts[k])),
				Data: map[string]any{"grammar": texts[k], "flags": flagsOf[k], "terms": live[gi]["terms"]}})
		}
		live = append(live[:gi:gi], live[gi+1:]...)
		idx = append(idx[:gi:gi], idx[gi+1:]...)
	}
	if len(entries) > 0 {
		c.Sample(entries[len(entries)-1])
		c.Sample(entries[0])
	}
}

// buildSynBatchFlags: per-grammar flags.
func (c *Ctx) buildSynBatchFlags(tag string, gs []*SynGrammar, flags [][]string) *SynBatch {
	return c.buildSynBatch(tag, gs, flags)
}

// replayTokMap regenerates and re-observes the token map of one grammar.
func replayTokMap(c *Ctx, r *Replay) (bool, string) {
	text, _ := r.Data["grammar"].(string)
	var flags []string
	if f, ok := r.Data["flags"].([]any); ok {
		for _, x := range f {
			flags = append(flags, fmt.Sprint(x))
		}
	}
	var terms []string
	if t, ok := r.Data["terms"].([]any); ok {
		for _, x := range t {
			terms = append(terms, fmt.Sprint(x))
		}
	}
	c.mu.Lock()
	c.tlcSeq++
	tag := fmt.Sprintf("tmreplay%03d", c.tlcSeq)
	c.mu.Unlock()
	m := c.NewModule(tag)
	run := m.GoccExt("g000", "g.bnf", []byte(strings.ReplaceAll(text, "@@PKG@@", "scratch/g000")), 90*time.Second, flags...)
	if run.Code != 0 || run.TimedOut {
		return false, "gocc does not accept the grammar any more"
	}
	// a tiny program that observes the map
	prog := `package main

import (
	"encoding/json"
	"os"
	token "scratch/g000/token"
)

func main() {
	var names []string
	json.Unmarshal([]byte(os.Args[1]), &names)
	out := map[string]interface{}{}
	ids := []string{}
	for n := 0; n < len(names)+4; n++ {
		ids = append(ids, token.TokMap.Id(token.Type(n)))
	}
	typ := []int{}
	for _, s := range names {
		typ = append(typ, int(token.TokMap.Type(s)))
	}
	out["id"], out["typ"] = ids, typ
	out["unknown"] = []int{int(token.TokMap.Type("no such token \x00"))}
	json.NewEncoder(os.Stdout).Encode(out)
}
`
	mustWrite(filepath.Join(m.Dir, "obs", "main.go"), []byte(prog))
	bin := filepath.Join(m.Dir, "obs", "obs")
	if out, ok := m.Build("obs", bin); !ok {
		return true, "the generated token package does not compile: " + tail(out, 4)
	}
	res := runCmd(cmdOpts{Dir: m.Dir, Timeout: time.Minute}, bin, string(mustJSON(terms)))
	if res.Code != 0 {
		infra("observer failed: %s", res.Out)
	}
	var obs struct {
		Id      []string `json:"id"`
		Typ     []int    `json:"typ"`
		Unknown []int    `json:"unknown"`
	}
	if err := jsonUnmarshal([]byte(res.Stdout), &obs); err != nil {
		infra("observer output: %v", err)
	}
	entry := tokMapEntry(terms, obs.Id, obs.Typ, obs.Unknown, nil, 0)
	tr := c.RunTLC(TLCOpts{Module: "TokenMap", Cfg: "TokenMap.cfg", Workers: 1, Files: map[string][]byte{"tokmaps.json": mustJSON([]any{entry})}})
	if tr.OK {
		return false, "token map satisfies TokenMap.tla"
	}
	if tr.ErrKind == "invariant" {
		return true, fmt.Sprintf("token map violates %s: Id = %q, Type(%q) = %v", tr.InvViolated, obs.Id, terms, obs.Typ)
	}
	infra("TokenMap replay: TLC failed (%s)", tr.ErrKind)
	return false, ""
}

var _ = os.Stat
