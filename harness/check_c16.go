package main

import (
	"fmt"
	"math/rand"
)

func init() {
	register("C16", checkC16)
}

// c16Lexer: a lexer after Reset returns the same tokens with the same positions as a fresh
// lexer on the same source. Design level: MC_LexScan explores Reset at every call boundary
// (property ResetFresh + the position invariants, which are stated against the text alone
// and therefore do not depend on history). Conformance: real lexers are scanned to the end,
// Reset, and scanned again (twice in the thorough tier, also mid-stream); every trace is
// validated against the model and compared with the reference tokenizer.
func (c *Ctx) c16Lexer(rng *rand.Rand) {
	n := c.pick(16, 120)
	gs := curatedLex()
	for i := 0; i < n; i++ {
		gs = append(gs, genLexGrammar(rng, c08Opts))
	}
	b := c.buildLexBatch("c16lex", gs)
	inputs := make([][][]byte, len(b.Cases))
	for i, cs := range b.Cases {
		inputs[i] = append(lexInputs(rng, cs.G, 3, c.pick(10, 50), c.pick(4, 16)), posInputs(rng, cs.G, c.pick(10, 40))...)
	}
	c.Add("evaluations", int64(len(b.Cases)))
	resets := c.pick(1, 2)
	c.lexTraceCheck(b, inputs, resets, false, "C16 (lexer reuse after Reset)")
	// Reset in mid-stream: after one, two and three Scan calls
	for _, partial := range []int{1, 2, 3} {
		if c.Quick() && partial == 3 {
			continue
		}
		c.lexTraceCheckPartial(b, inputs, 1, partial, false, fmt.Sprintf("C16 (Reset after %d Scan calls)", partial))
	}
	mis := c.lexEndToEndMany(b.Cases, inputs, resets, true, b.Drv)
	for i, ms := range mis {
		if len(ms) > 0 {
			cs := b.Cases[i]
			c.Violation(Replay{Kind: "lex", What: fmt.Sprintf("lexer of the grammar below, input %q: %s\n%s", ms[0].In, ms[0].Msg, indent(cs.Text)), Data: lexReplayData(cs, ms[0].In, resets, true)})
		}
	}
	for i, cs := range b.Cases {
		for _, in := range inputs[i] {
			if len(in) >= 2 {
				c.Distinct("lex" + cs.Sub + string(in))
			}
		}
	}
	c.Sample(map[string]any{"kind": "lexer history", "grammar": b.Cases[1].Text, "history": fmt.Sprintf("NewLexer(%q); Scan*; Reset; Scan*", inputs[1][len(inputs[1])-1])})
}

// c16Parser: Parse on a used parser object behaves like Parse on a fresh one. The driver
// model starts every Parse from the fresh initial configuration (Begin), so validating the
// trace of the k-th call of a history against the model IS the property; histories mix
// sentences, early and late failures, recovering inputs and failing actions.
func (c *Ctx) c16Parser(rng *rand.Rand) {
	var gs []*SynGrammar
	for _, g := range append(curatedSyn(), curatedErrSyn()...) {
		for i := range g.Prods {
			if i%4 != 3 {
				g.Prods[i].Action = "log"
			}
		}
		gs = append(gs, g)
	}
	for i := 0; i < c.pick(60, 400); i++ {
		o := c03Opts
		if i%2 == 0 {
			o = c07Opts
		}
		gs = append(gs, genSynGrammar(rng, o))
	}
	b := c.buildSynBatch("c16syn", gs, [][]string{nil})
	var cases []*SynCase
	for _, cs := range b.built() {
		if cs.Reported != -1 || cs.pairingProblem() != "" {
			continue
		}
		cases = append(cases, cs)
	}
	c.Add("evaluations", int64(len(cases)))
	var hs []*synHistory
	maxCalls := c.pick(3, 5)
	for i, cs := range cases {
		pool := synInputs(rng, cs.G, 3, 12, c.pick(6, 14), true)
		for k := 0; k < c.pick(8, 30); k++ {
			n := 2 + rng.Intn(maxCalls-1)
			h := &synHistory{Case: cs, CaseIx: i}
			for j := 0; j < n; j++ {
				in := synInput{Toks: pool[rng.Intn(len(pool))]}
				if rng.Intn(5) == 0 {
					in.FailAt = 1 + rng.Intn(3)
				}
				h.Inputs = append(h.Inputs, in)
			}
			hs = append(hs, h)
			c.Distinct("syn" + cs.Sub + fmt.Sprint(h.Inputs))
		}
	}
	c.synTraceRound(b, cases, hs, "C16 (parser reuse)", []bool{false, true})
	if len(hs) > 0 {
		c.Sample(map[string]any{"kind": "parser history", "grammar": hs[len(hs)-1].Case.Text, "history": describeSynEvents(hs[len(hs)-1])})
	}
}

func checkC16(c *Ctx) {
	c.Level = "model_checking"
	c.Set("rule", "parsers: histories of 2-5 Parse calls (sentences, early/late failures, recovering inputs, failing actions) on ONE real parser object; the trace of every call is validated by TLC against the driver model, which starts each Parse from the fresh configuration, over the real and the canonical tables (result, error value, expected list, action calls). lexers: TLC explores Reset at every call boundary of the Scan-loop model for all texts up to the bound (ResetFresh, position invariants); real lexers are scanned to the end, Reset and scanned again, each trace validated by TLC against the model with the real automaton and compared with the reference tokenizer. distinct_nontrivial counts distinct (grammar, input history) cases")
	rng := rand.New(rand.NewSource(c.Seed))
	c.runMCLexScan([]string{"PosExact", "CursorExact", "Tiling"}, []string{"ResetFresh", "EOFSticky"})
	c.c16Lexer(rng)
	c.c16Parser(rng)
}
