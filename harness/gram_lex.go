package main

import (
	"fmt"
	"math/rand"
	"sort"
	"strings"
	"unicode/utf8"
)

// ---------------------------------------------------------------------------------------
// Abstract lexical grammars (the shape the TLA+ module Regex.tla works on) and their
// rendering in gocc's BNF.

// Re is a regular expression over runes. Leaves are single closed rune intervals (what a
// gocc char_lit or char range denotes) or '.'.
type Re struct {
	K  string `json:"k"`           // eps set dot cat alt star opt ref
	S  []int  `json:"s,omitempty"` // set: atom numbers (1-based), filled by computeAtoms
	L  *Re    `json:"l,omitempty"`
	R  *Re    `json:"r,omitempty"`
	X  *Re    `json:"x,omitempty"`
	N  string `json:"n,omitempty"` // ref: regdef name
	Lo rune   `json:"-"`
	Hi rune   `json:"-"`
	// Grp: rendered inside ( ) although not required (layout only)
	Grp bool `json:"-"`
}

func reSet(lo, hi rune) *Re { return &Re{K: "set", Lo: lo, Hi: hi} }
func reChar(r rune) *Re     { return &Re{K: "set", Lo: r, Hi: r} }
func reDot() *Re            { return &Re{K: "dot"} }
func reCat(l, r *Re) *Re    { return &Re{K: "cat", L: l, R: r} }
func reAlt(l, r *Re) *Re    { return &Re{K: "alt", L: l, R: r} }
func reStar(x *Re) *Re      { return &Re{K: "star", X: x} }
func reOpt(x *Re) *Re       { return &Re{K: "opt", X: x} }
func reRef(n string) *Re    { return &Re{K: "ref", N: n} }
func reCatN(xs ...*Re) *Re {
	r := xs[len(xs)-1]
	for i := len(xs) - 2; i >= 0; i-- {
		r = reCat(xs[i], r)
	}
	return r
}
func reAltN(xs ...*Re) *Re {
	r := xs[len(xs)-1]
	for i := len(xs) - 2; i >= 0; i-- {
		r = reAlt(xs[i], r)
	}
	return r
}
func reString(s string) *Re {
	var xs []*Re
	for _, r := range s {
		xs = append(xs, reChar(r))
	}
	return reCatN(xs...)
}

type LexDef struct {
	Name string `json:"name"`
	Kind string `json:"kind"` // tok | ign | def | lit
	Re   *Re    `json:"re"`
}

// LexGrammar: Defs in source order (tokens, ignored tokens, regdefs share one numbering);
// Lits are the string literals used by the syntax part (content, unquoted).
type LexGrammar struct {
	Defs  []LexDef
	Lits  []string
	Atoms []Atom
	// Unused: tokens of the lexical part that the generated syntax part does not mention
	Unused map[string]bool
}

type Atom struct {
	Lo, Hi rune
	Used   bool // inside some literal/range of the grammar
}

func (g *LexGrammar) walk(f func(*Re)) {
	var w func(*Re)
	w = func(r *Re) {
		if r == nil {
			return
		}
		f(r)
		w(r.L)
		w(r.R)
		w(r.X)
	}
	for i := range g.Defs {
		w(g.Defs[i].Re)
	}
}

// computeAtoms partitions [0,0x10FFFF] by all interval end points of the grammar and fills
// the atom lists of the set leaves. The partition is computed from the abstract grammar
// only (independently of gocc).
func (g *LexGrammar) computeAtoms() {
	pts := map[rune]bool{0: true, 0x110000: true}
	add := func(lo, hi rune) { pts[lo] = true; pts[hi+1] = true }
	g.walk(func(r *Re) {
		if r.K == "set" {
			add(r.Lo, r.Hi)
		}
	})
	for _, l := range g.Lits {
		for _, r := range l {
			add(r, r)
		}
	}
	// surrogates cannot appear in decoded text; give them their own atoms so that text
	// representatives are always valid scalar values
	add(0xD800, 0xDFFF)
	var ps []rune
	for p := range pts {
		ps = append(ps, p)
	}
	sort.Slice(ps, func(i, j int) bool { return ps[i] < ps[j] })
	g.Atoms = nil
	for i := 0; i+1 < len(ps); i++ {
		g.Atoms = append(g.Atoms, Atom{Lo: ps[i], Hi: ps[i+1] - 1})
	}
	fill := func(lo, hi rune) []int {
		var s []int
		for i := range g.Atoms {
			if g.Atoms[i].Lo >= lo && g.Atoms[i].Hi <= hi {
				s = append(s, i+1)
				g.Atoms[i].Used = true
			}
		}
		return s
	}
	g.walk(func(r *Re) {
		if r.K == "set" {
			r.S = fill(r.Lo, r.Hi)
		}
	})
	for _, l := range g.Lits {
		for _, r := range l {
			fill(r, r)
		}
	}
}

// atomOf returns the 1-based atom number of a rune.
func (g *LexGrammar) atomOf(r rune) int {
	i := sort.Search(len(g.Atoms), func(i int) bool { return g.Atoms[i].Hi >= r })
	return i + 1
}

// textAtoms lists the atoms that can occur in decoded text (everything but surrogates).
func (g *LexGrammar) textAtoms() []int {
	var as []int
	for i, a := range g.Atoms {
		if a.Lo >= 0xD800 && a.Hi <= 0xDFFF {
			continue
		}
		as = append(as, i+1)
	}
	return as
}

// reps returns representative runes of an atom: first, last, middle (text is built from these
// three) and, for wide atoms, further interior points (second, last but one, quartiles, and the
// UTF-8 width boundaries inside the atom) used only for probing the transition functions.
func (a Atom) reps() []rune {
	rs := []rune{a.Lo}
	if a.Hi != a.Lo {
		rs = append(rs, a.Hi)
		if m := a.Lo + (a.Hi-a.Lo)/2; m != a.Lo && m != a.Hi {
			rs = append(rs, m)
		}
	}
	return rs
}

func (a Atom) probes() []rune {
	rs := a.reps()
	seen := map[rune]bool{}
	for _, r := range rs {
		seen[r] = true
	}
	add := func(r rune) {
		if r > a.Lo && r < a.Hi && !seen[r] {
			seen[r] = true
			rs = append(rs, r)
		}
	}
	add(a.Lo + 1)
	add(a.Hi - 1)
	add(a.Lo + (a.Hi-a.Lo)/4)
	add(a.Lo + 3*((a.Hi-a.Lo)/4))
	// UTF-8 width boundaries, and characters that code tends to single out (line ends, blanks,
	// the first letters and digit, the byte order mark, Unicode spaces and separators)
	for _, b := range []rune{0x7f, 0x80, 0xff, 0x100, 0x7ff, 0x800, 0xd7ff, 0xe000, 0xfffd, 0xffff, 0x10000, 0x10fffe,
		0x09, 0x0a, 0x0d, 0x20, '0', 'A', 'a', '_', 0x85, 0xa0, 0x2028, 0x3000, 0xfeff} {
		add(b)
	}
	return rs
}

// ---------------------------------------------------------------------------------------
// abstract JSON for TLC

type lexAbs struct {
	NAtoms int            `json:"natoms"`
	Defs   map[string]*Re `json:"defs"` // regular definitions by name
	Toks   []lexAbsTok    `json:"toks"` // tokens, ignored tokens and literals, in priority order
}
type lexAbsTok struct {
	Name string `json:"name"`
	Kind string `json:"kind"` // tok | ign
	Lit  bool   `json:"lit"`
	Idx  int    `json:"idx"` // declaration index (position among all lexical productions)
	Re   *Re    `json:"re"`
}

func (g *LexGrammar) abstract() lexAbs {
	a := lexAbs{NAtoms: len(g.Atoms), Defs: map[string]*Re{}}
	for i, d := range g.Defs {
		switch d.Kind {
		case "def":
			a.Defs[d.Name] = d.Re
		default:
			a.Toks = append(a.Toks, lexAbsTok{Name: d.Name, Kind: d.Kind, Idx: i, Re: d.Re})
		}
	}
	for j, l := range g.Lits {
		re := reString(l)
		tmp := LexGrammar{Defs: []LexDef{{Re: re}}, Atoms: g.Atoms}
		tmp.walk(func(r *Re) {
			if r.K == "set" {
				r.S = []int{g.atomOf(r.Lo)}
			}
		})
		a.Toks = append(a.Toks, lexAbsTok{Name: l, Kind: "tok", Lit: true, Idx: len(g.Defs) + j, Re: re})
	}
	return a
}

// ---------------------------------------------------------------------------------------
// rendering

func charLit(r rune) string {
	switch {
	case r == '\'':
		return `'\''`
	case r == '\\':
		return `'\\'`
	case r >= 0x20 && r < 0x7f:
		return "'" + string(r) + "'"
	case r == '\n':
		return `'\n'`
	case r == '\t':
		return `'\t'`
	case r == '\r':
		return `'\r'`
	case r < 0x100:
		return fmt.Sprintf(`'\x%02x'`, r)
	case r < 0x10000:
		return fmt.Sprintf(`'\u%04x'`, r)
	}
	return fmt.Sprintf(`'\U%08x'`, r)
}

// prec: 0 = pattern (alternatives), 1 = alternative (sequence), 2 = term
func (r *Re) render(prec int) string {
	var s string
	switch r.K {
	case "set":
		if r.Lo == r.Hi {
			s = charLit(r.Lo)
		} else {
			s = charLit(r.Lo) + "-" + charLit(r.Hi)
		}
	case "dot":
		s = "."
	case "ref":
		s = r.N
	case "cat":
		s = r.L.render(1) + " " + r.R.render(1)
		if prec > 1 {
			s = "(" + s + ")"
		}
	case "alt":
		s = r.L.render(0) + " | " + r.R.render(0)
		if prec > 0 {
			s = "(" + s + ")"
		}
	case "star":
		s = "{" + r.X.render(0) + "}"
	case "opt":
		s = "[" + r.X.render(0) + "]"
	default:
		panic("render: " + r.K)
	}
	if r.Grp && !strings.HasPrefix(s, "(") {
		s = "(" + s + ")"
	}
	return s
}

// renderLex renders the lexical part.
func (g *LexGrammar) renderLex() string {
	var b strings.Builder
	for _, d := range g.Defs {
		fmt.Fprintf(&b, "%s : %s ;\n", d.Name, d.Re.render(0))
	}
	return b.String()
}

func quoteLit(l string) string {
	if strings.ContainsAny(l, "\"\\\n") && !strings.Contains(l, "`") {
		return "`" + l + "`"
	}
	return `"` + l + `"`
}

// render renders a complete grammar file. When there are string literals a trivial
// conflict-free syntax part is added that uses every literal and every token.
func (g *LexGrammar) render() string {
	s := g.renderLex()
	if len(g.Lits) == 0 {
		return s
	}
	var alts []string
	for _, l := range g.Lits {
		alts = append(alts, quoteLit(l))
	}
	for _, d := range g.Defs {
		if d.Kind == "tok" && !g.Unused[d.Name] {
			alts = append(alts, d.Name)
		}
	}
	return s + "\nStart : " + strings.Join(alts, " | ") + " ;\n"
}

// ---------------------------------------------------------------------------------------
// Go-side helpers used only to keep generators inside the property's domain
// (the TLA+ specification re-checks the same conditions with ASSUME).

func (g *LexGrammar) def(name string) *Re {
	for _, d := range g.Defs {
		if d.Name == name {
			return d.Re
		}
	}
	return nil
}

func (g *LexGrammar) nullable(r *Re) bool {
	switch r.K {
	case "eps", "star", "opt":
		return true
	case "set", "dot":
		return false
	case "cat":
		return g.nullable(r.L) && g.nullable(r.R)
	case "alt":
		return g.nullable(r.L) || g.nullable(r.R)
	case "ref":
		return g.nullable(g.def(r.N))
	}
	panic("nullable")
}

// hasNullableStarBody: a repetition (or option nested in a repetition) whose body can match
// the empty string; gocc's Emoves used to loop on these (finding F12).
func (g *LexGrammar) hasNullableStarBody(r *Re) bool {
	found := false
	var w func(*Re)
	w = func(r *Re) {
		if r == nil {
			return
		}
		if r.K == "star" && g.nullable(r.X) {
			found = true
		}
		if r.K == "ref" {
			w(g.def(r.N))
		}
		w(r.L)
		w(r.R)
		w(r.X)
	}
	w(r)
	return found
}

// ---------------------------------------------------------------------------------------
// random generation

var runePool = []rune{
	'a', 'b', 'c', 'd', 'x', 'y', 'z', '0', '1', '9', 'A', 'Z', '_', ' ', '\n', '\t', '\r',
	'\'', '\\', '"', '`', '$', '%', '{', '/', '*', 0x00, 0x01, 0x7f, 0x80, 0xff, 0x100, 0x7ff, 0x800,
	0xe9, 0x3b1, 0x65e5, 0xd7ff, 0xe000, 0xfffd, 0xffff, 0x10000, 0x1f600, 0x10ffff,
}

type lexGenOpts struct {
	MaxToks       int
	MaxIgn        int
	MaxDefs       int
	MaxLits       int
	Depth         int
	NullableStars bool // allow nullable bodies inside {} (F12 shape)
	NoDot         bool
	ForcePool     []rune // runes every grammar's pool contains
}

type lexGen struct {
	rng  *rand.Rand
	pool []rune // runes this grammar draws from
	o    lexGenOpts
	defs []string // names of CF-a regdefs usable anywhere
	g    *LexGrammar
}

func (lg *lexGen) leaf() *Re {
	n := lg.rng.Intn(100)
	switch {
	case n < 8 && !lg.o.NoDot:
		return reDot()
	case n < 30:
		a, b := lg.pool[lg.rng.Intn(len(lg.pool))], lg.pool[lg.rng.Intn(len(lg.pool))]
		if a > b {
			a, b = b, a
		}
		if a < 0xd800 && b > 0xdfff && lg.rng.Intn(2) == 0 { // ranges across the surrogate gap are legal
			return reSet(a, b)
		}
		return reSet(a, b)
	case n < 40 && len(lg.defs) > 0:
		return reRef(lg.defs[lg.rng.Intn(len(lg.defs))])
	}
	return reChar(lg.pool[lg.rng.Intn(len(lg.pool))])
}

func (lg *lexGen) expr(depth int) *Re {
	if depth <= 0 {
		return lg.leaf()
	}
	switch n := lg.rng.Intn(100); {
	case n < 30:
		return lg.leaf()
	case n < 55:
		k := 2 + lg.rng.Intn(2)
		xs := make([]*Re, k)
		for i := range xs {
			xs[i] = lg.expr(depth - 1)
		}
		return reCatN(xs...)
	case n < 75:
		k := 2 + lg.rng.Intn(2)
		xs := make([]*Re, k)
		for i := range xs {
			xs[i] = lg.expr(depth - 1)
		}
		return reAltN(xs...)
	case n < 87:
		for try := 0; try < 20; try++ {
			x := lg.expr(depth - 1)
			if lg.o.NullableStars || !lg.g.nullable(x) {
				return reStar(x)
			}
		}
		return reStar(lg.leaf())
	case n < 96:
		return reOpt(lg.expr(depth - 1))
	default:
		x := lg.expr(depth - 1)
		x.Grp = true
		return x
	}
}

func (lg *lexGen) nonNullable(depth int) *Re {
	for try := 0; try < 50; try++ {
		x := lg.expr(depth)
		if !lg.g.nullable(x) && (lg.o.NullableStars || !lg.g.hasNullableStarBody(x)) {
			return x
		}
	}
	return lg.leafNoRef()
}

func (lg *lexGen) leafNoRef() *Re { return reChar(lg.pool[lg.rng.Intn(len(lg.pool))]) }

// genLexGrammar draws a random lexical grammar inside the domain described in DESIGN.md
// (C01): no nullable token pattern, no recursive regdef, regdefs from the conflation-free
// classes CF-a (single-rune languages, usable anywhere), CF-b (fixed-length words over private
// runes) and CF-c (arbitrary, but referenced only as the first term of a top-level alternative).
func genLexGrammar(rng *rand.Rand, o lexGenOpts) *LexGrammar {
	for {
		g, privDefs := genLexGrammar1(rng, o)
		if g.privateOK(privDefs) {
			return g
		}
	}
}

// privateOK: the runes of a CF-b regular definition occur in no other literal, range or
// string literal of the grammar (otherwise a second instance of the definition could start
// while one is in progress, which is finding F4's territory).
func (g *LexGrammar) privateOK(privDefs []string) bool {
	for _, pd := range privDefs {
		priv := map[rune]bool{}
		var w func(r *Re)
		w = func(r *Re) {
			if r == nil {
				return
			}
			if r.K == "set" {
				priv[r.Lo] = true
			}
			w(r.L)
			w(r.R)
			w(r.X)
		}
		w(g.def(pd))
		for _, d := range g.Defs {
			if d.Name == pd {
				continue
			}
			bad := false
			var v func(r *Re)
			v = func(r *Re) {
				if r == nil {
					return
				}
				if r.K == "set" {
					for p := range priv {
						if r.Lo <= p && p <= r.Hi {
							bad = true
						}
					}
				}
				v(r.L)
				v(r.R)
				v(r.X)
			}
			v(d.Re)
			if bad {
				return false
			}
		}
		for _, l := range g.Lits {
			for _, r := range l {
				if priv[r] {
					return false
				}
			}
		}
	}
	return true
}

func genLexGrammar1(rng *rand.Rand, o lexGenOpts) (*LexGrammar, []string) {
	g := &LexGrammar{}
	lg := &lexGen{rng: rng, o: o, g: g}
	// rune pool of this grammar: small, so that patterns overlap
	n := 3 + rng.Intn(6)
	perm := rng.Perm(len(runePool))
	for i := 0; i < n; i++ {
		lg.pool = append(lg.pool, runePool[perm[i]])
	}
	lg.pool = append(lg.pool, o.ForcePool...)
	private := []rune{}
	for i := n; i < n+4 && i < len(perm); i++ {
		private = append(private, runePool[perm[i]])
	}
	type pending struct {
		d   LexDef
		pos int
	}
	var defsA, defsB, defsC []LexDef
	nd := 0
	if o.MaxDefs > 0 {
		nd = rng.Intn(o.MaxDefs + 1)
	}
	for i := 0; i < nd; i++ {
		name := fmt.Sprintf("_r%d", i)
		switch rng.Intn(3) {
		case 0: // CF-a
			k := 1 + rng.Intn(3)
			xs := make([]*Re, k)
			for j := range xs {
				if len(lg.defs) > 0 && rng.Intn(4) == 0 {
					xs[j] = reRef(lg.defs[rng.Intn(len(lg.defs))])
				} else if rng.Intn(3) == 0 {
					a, b := lg.pool[rng.Intn(len(lg.pool))], lg.pool[rng.Intn(len(lg.pool))]
					if a > b {
						a, b = b, a
					}
					xs[j] = reSet(a, b)
				} else {
					xs[j] = lg.leafNoRef()
				}
			}
			defsA = append(defsA, LexDef{Name: name, Kind: "def", Re: reAltN(xs...)})
			lg.defs = append(lg.defs, name)
			g.Defs = append(g.Defs, defsA[len(defsA)-1]) // visible to nullable()
		case 1: // CF-b: fixed-length word over private runes
			if len(private) == 0 {
				continue
			}
			k := 1 + rng.Intn(3)
			xs := make([]*Re, k)
			for j := range xs {
				xs[j] = reChar(private[rng.Intn(len(private))])
			}
			d := LexDef{Name: name, Kind: "def", Re: reCatN(xs...)}
			defsB = append(defsB, d)
			g.Defs = append(g.Defs, d)
		case 2: // CF-c: arbitrary non-recursive body, used only in head position
			d := LexDef{Name: name, Kind: "def", Re: lg.nonNullable(o.Depth - 1)}
			defsC = append(defsC, d)
			g.Defs = append(g.Defs, d)
		}
	}
	// tokens
	nt := 1 + rng.Intn(o.MaxToks)
	ni := 0
	if o.MaxIgn > 0 {
		ni = rng.Intn(o.MaxIgn + 1)
	}
	var toks []LexDef
	usedB := map[string]bool{}
	for i := 0; i < nt+ni; i++ {
		kind, name := "tok", fmt.Sprintf("t%d", i)
		if i >= nt {
			kind, name = "ign", fmt.Sprintf("!i%d", i-nt)
		}
		var re *Re
		switch r := rng.Intn(10); {
		case r < 2 && len(defsC) > 0:
			// CF-c use: head of top-level alternatives
			d := defsC[rng.Intn(len(defsC))]
			alt1 := reRef(d.Name)
			if rng.Intn(2) == 0 {
				alt1 = reCat(reRef(d.Name), lg.expr(o.Depth-1))
			}
			re = alt1
			if rng.Intn(2) == 0 {
				re = reAlt(alt1, lg.nonNullable(o.Depth-1))
			}
		case r < 4 && len(defsB) > 0:
			d := defsB[rng.Intn(len(defsB))]
			if usedB[d.Name] { // one use per CF-b regdef keeps instances apart
				re = lg.nonNullable(o.Depth)
				break
			}
			usedB[d.Name] = true
			parts := []*Re{}
			if rng.Intn(2) == 0 {
				parts = append(parts, lg.expr(o.Depth-1))
			}
			parts = append(parts, reRef(d.Name))
			if rng.Intn(2) == 0 {
				parts = append(parts, lg.expr(o.Depth-1))
			}
			re = reCatN(parts...)
		default:
			re = lg.nonNullable(o.Depth)
		}
		if g.nullable(re) || (!o.NullableStars && g.hasNullableStarBody(re)) {
			re = lg.leafNoRef()
		}
		toks = append(toks, LexDef{Name: name, Kind: kind, Re: re})
	}
	// twin tokens: the same language as another token, but spelled through single-rune regular
	// definitions (or the other way round); only the declaration order decides between them
	if len(toks) > 0 && rng.Intn(3) == 0 {
		src := toks[rng.Intn(len(toks))]
		if !hasRef(src.Re) {
			nTwin := 0
			var wrap func(r *Re) *Re
			wrap = func(r *Re) *Re {
				if r == nil {
					return nil
				}
				c := *r
				if r.K == "set" && rng.Intn(2) == 0 {
					name := fmt.Sprintf("_w%d", nTwin)
					nTwin++
					d := LexDef{Name: name, Kind: "def", Re: reSet(r.Lo, r.Hi)}
					g.Defs = append(g.Defs, d)
					return reRef(name)
				}
				c.L, c.R, c.X = wrap(r.L), wrap(r.R), wrap(r.X)
				return &c
			}
			kind, name := "tok", fmt.Sprintf("t%d", len(toks))
			if rng.Intn(4) == 0 {
				kind, name = "ign", fmt.Sprintf("!i%d", len(toks))
			}
			toks = append(toks, LexDef{Name: name, Kind: kind, Re: wrap(src.Re)})
		}
	}
	// interleave regdefs and tokens in source order (regdefs may be declared after use)
	all := append(append([]LexDef{}, g.Defs...), toks...)
	rng.Shuffle(len(all), func(i, j int) { all[i], all[j] = all[j], all[i] })
	g.Defs = all
	// string literals of the syntax part
	if o.MaxLits > 0 {
		nl := rng.Intn(o.MaxLits + 1)
		seen := map[string]bool{}
		for i := 0; i < nl; i++ {
			k := 1 + rng.Intn(3)
			var sb strings.Builder
			for j := 0; j < k; j++ {
				r := lg.pool[rng.Intn(len(lg.pool))]
				if r == '"' || r == '`' || r == '\\' || r == '\n' || r == '\r' || r == 0 || !utf8.ValidRune(r) || r == 0xfffd {
					r = 'k'
				}
				sb.WriteRune(r)
			}
			s := sb.String()
			if seen[s] || s == "empty" || s == "error" {
				continue
			}
			seen[s] = true
			g.Lits = append(g.Lits, s)
		}
	}
	// some tokens are declared but not used by the syntax part (they must still be numbered
	// consistently in token map, lexer and parser)
	if len(g.Lits) > 0 {
		g.Unused = map[string]bool{}
		for _, d := range g.Defs {
			if d.Kind == "tok" && rng.Intn(3) == 0 {
				g.Unused[d.Name] = true
			}
		}
	}
	g.computeAtoms()
	var privDefs []string
	for _, d := range defsB {
		privDefs = append(privDefs, d.Name)
	}
	return g, privDefs
}

// ---------------------------------------------------------------------------------------
// curated lexical grammars: shapes that matter for the Scan loop and for positions

func lexDefs(ds ...LexDef) *LexGrammar {
	g := &LexGrammar{Defs: ds}
	g.computeAtoms()
	return g
}

func tokDef(name string, re *Re) LexDef { return LexDef{Name: name, Kind: "tok", Re: re} }
func ignDef(name string, re *Re) LexDef { return LexDef{Name: name, Kind: "ign", Re: re} }
func regDef(name string, re *Re) LexDef { return LexDef{Name: name, Kind: "def", Re: re} }

func curatedLex() []*LexGrammar {
	// fresh trees on every use: atom lists are per grammar
	letter := func() *Re { return reAlt(reSet('a', 'z'), reAlt(reSet('A', 'Z'), reChar('_'))) }
	digit := func() *Re { return reSet('0', '9') }
	ws := func() *Re { return reAltN(reChar(' '), reChar('\t'), reChar('\n'), reChar('\r')) }
	gs := []*LexGrammar{
		// an ignored token that extends an accepted token (stale token type after a restart)
		lexDefs(tokDef("a", reChar('x')), ignDef("!ig", reCat(reChar('x'), reChar('y'))), tokDef("b", reChar('b'))),
		// a typical programming-language lexical part
		lexDefs(regDef("_letter", letter()), regDef("_digit", digit()),
			tokDef("id", reCat(reRef("_letter"), reStar(reAlt(reRef("_letter"), reRef("_digit"))))),
			tokDef("int", reCat(reRef("_digit"), reStar(reRef("_digit")))),
			tokDef("str", reCatN(reChar('"'), reStar(reAlt(reCat(reChar('\\'), reDot()), reDot())), reChar('"'))),
			ignDef("!ws", ws()),
			ignDef("!line", reCatN(reChar('/'), reChar('/'), reStar(reDot()), reChar('\n'))),
			ignDef("!block", reCatN(reChar('/'), reChar('*'), reStar(reAlt(reDot(), reCat(reChar('*'), reDot()))), reChar('*'), reChar('/'))),
			tokDef("op", reAltN(reChar('+'), reChar('-'), reChar('*'), reChar('/'), reCat(reChar('='), reOpt(reChar('=')))))),
		// tokens that span newlines, tabs and carriage returns; ignored multi-rune text
		lexDefs(tokDef("nl", reCat(reChar('\n'), reStar(reChar('\n')))), tokDef("crlf", reCat(reChar('\r'), reChar('\n'))),
			tokDef("tab", reChar('\t')), tokDef("w", reCat(reSet('a', 'z'), reStar(reSet('a', 'z')))),
			ignDef("!sp", reCat(reChar(' '), reChar(' '))), tokDef("u", reSet(0x80, 0x10ffff))),
		// '.' tokens and an ignored token ending at end of input
		lexDefs(tokDef("any2", reCat(reDot(), reDot())), ignDef("!z", reChar('z')), tokDef("q", reCat(reChar('q'), reOpt(reChar('\n'))))),
		// keyword literals against identifiers
		{Defs: []LexDef{tokDef("id", reCat(letter(), reStar(letter()))), ignDef("!ws", ws())}, Lits: []string{"if", "iff", "=", "=="}},
		// a string literal whose content looks like a character literal (its token name collides
		// with the display form of the literal '_')
		{Defs: []LexDef{tokDef("t0", reChar('"'))}, Lits: []string{"'_'"}},
	}
	for _, g := range gs {
		g.computeAtoms()
	}
	return gs
}

// kfLex: grammars that exhibit known findings; never part of the regular pools.
func kfLex() []*LexGrammar {
	gs := []*LexGrammar{
		// F4a: a fresh instance of a regular definition is suppressed while another is in progress
		lexDefs(regDef("_r", reAlt(reCat(reChar('a'), reChar('b')), reChar('a'))), tokDef("t", reCat(reRef("_r"), reStar(reRef("_r"))))),
		// F4b: the end of a regular definition returns to every item waiting for it
		lexDefs(regDef("_r", reCat(reChar('a'), reChar('a'))), tokDef("t", reAlt(reCat(reRef("_r"), reChar('x')), reCatN(reChar('a'), reRef("_r"), reChar('y'))))),
	}
	return gs
}
