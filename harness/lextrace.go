package main

import (
	"bytes"
	"fmt"
	"time"
)

// lexTraceJob is one recorded run of a real lexer object: scans to end of input (+2 calls),
// optionally Reset and scan again.
type lexTraceJob struct {
	Case   *LexCase
	CaseIx int
	In     []byte
	Events []map[string]any
}

// recordLexTraces runs the real lexers and turns what they did into trace events.
// With dbg the lexers were generated with -debug_lexer and every loop iteration is an event.
func (c *Ctx) recordLexTraces(b *LexBatch, inputs [][][]byte, resets int, dbg bool) []*lexTraceJob {
	return c.recordLexTracesPartial(b, inputs, resets, 0, dbg)
}

// recordLexTracesPartial: with partial > 0 only that many Scan calls are made before the first
// Reset (a lexer reset in mid-stream).
func (c *Ctx) recordLexTracesPartial(b *LexBatch, inputs [][][]byte, resets, partial int, dbg bool) []*lexTraceJob {
	var ops []lexOp
	for i, cs := range b.Cases {
		ops = append(ops, lexOp{Op: "scan", G: cs.Sub, Inputs: inputs[i], Resets: resets, Extra: 2, Partial: partial})
	}
	// a dozen grammars per process: the debug output of a thorough run is larger than what is
	// kept of one child's output
	var res []lexRes
	dbgScans := map[[2]int][][]dbgScan{}
	const chunk = 12
	for lo := 0; lo < len(ops); lo += chunk {
		hi := min(lo+chunk, len(ops))
		r, stdout := b.Drv.Run(ops[lo:hi])
		res = append(res, r...)
		if dbg {
			for k, v := range parseDebugLexer(stdout) {
				dbgScans[[2]int{k[0] + lo, k[1]}] = v
			}
		}
	}
	var jobs []*lexTraceJob
	id := 0
	for i, cs := range b.Cases {
		for j, in := range inputs[i] {
			id++
			job := &lexTraceJob{Case: cs, CaseIx: i, In: in}
			job.Events = append(job.Events, map[string]any{"ev": "new", "g": i + 1, "src": cs.G.srcRunes(in), "dbg": dbg, "id": id})
			if res[i].Panics[j] != "" {
				job.Events = append(job.Events, map[string]any{"ev": "panic", "msg": res[i].Panics[j]})
			}
			// debug output is free text and may be reworded: when it does not have the expected
			// shape for this run, the run is validated at Scan granularity instead
			jobDbg := dbg
			if dbg {
				rounds := dbgScans[[2]int{i, j}]
				if len(rounds) < len(res[i].Scans[j]) {
					jobDbg = false
				}
				for k, round := range res[i].Scans[j] {
					if jobDbg && len(rounds[k]) != len(round) {
						jobDbg = false
					}
				}
				if !jobDbg {
					job.Events[0]["dbg"] = false
					c.Add("debug_traces_validated_at_scan_granularity_only", 1)
				}
			}
			for k, round := range res[i].Scans[j] {
				if k > 0 {
					job.Events = append(job.Events, map[string]any{"ev": "reset"})
				}
				var ds []dbgScan
				if jobDbg {
					ds = dbgScans[[2]int{i, j}][k]
				}
				for n, t := range round {
					if jobDbg {
						job.Events = append(job.Events, map[string]any{"ev": "begin", "pos": ds[n].Pos})
						for _, st := range ds[n].Steps {
							job.Events = append(job.Events, map[string]any{"ev": "iter", "pos": st.Pos, "line": st.Line, "col": st.Col,
								"state": st.State, "next": st.Next, "posafter": st.PosAfter, "start": st.Start, "end": st.End, "rune": st.Rune})
						}
					}
					job.Events = append(job.Events, map[string]any{"ev": "scan", "type": t.Type, "off": t.Off, "endoff": t.Off + len(t.Lit), "line": t.Line, "col": t.Col})
					// the literal must be the very bytes of the input it covers
					if t.Off < 0 || t.Off+len(t.Lit) > len(in) || !bytes.Equal(t.Lit, in[t.Off:t.Off+len(t.Lit)]) {
						job.Events = append(job.Events, map[string]any{"ev": "badlit", "off": t.Off})
					}
				}
			}
			jobs = append(jobs, job)
		}
	}
	return jobs
}

// validateLexTraces checks the recorded runs against LexScan instantiated with the real
// automata (LexTrace.tla). It returns the jobs whose trace was rejected.
func (c *Ctx) validateLexTraces(b *LexBatch, jobs []*lexTraceJob) []*lexTraceJob {
	var dfas []any
	for _, cs := range b.Cases {
		dfas = append(dfas, map[string]any{"T": cs.Dump.T, "acc": cs.Dump.Acc, "ign": cs.Dump.Ign})
	}
	var rejected []*lexTraceJob
	live := append([]*lexTraceJob{}, jobs...)
	for round := 0; round < 8 && len(live) > 0; round++ {
		var buf bytes.Buffer
		nev := 0
		for _, j := range live {
			for _, e := range j.Events {
				buf.Write(mustJSON(e))
				buf.WriteByte('\n')
				nev++
			}
		}
		r := c.RunTLC(TLCOpts{Module: "LexTrace", Cfg: "LexTrace.cfg", Workers: 1, Timeout: 30 * time.Minute,
			Files: map[string][]byte{"dfas.json": mustJSON(dfas), "trace.ndjson": buf.Bytes()}})
		c.Add("states", r.Distinct)
		c.Add("transitions", r.Generated)
		if r.OK {
			c.Add("traces_validated_against_impl", int64(len(live)))
			c.Add("trace_events", int64(nev))
			return rejected
		}
		if (r.ErrKind != "invariant" && r.ErrKind != "deadlock") || len(r.Trace) == 0 {
			infra("LexTrace: TLC failed (%s) dir=%s\n%s", r.ErrKind, r.Dir, tail(filterTLC(r.Out), 40))
		}
		last := r.Trace[len(r.Trace)-1]
		id := int(last["id"].(float64))
		l := int(last["l"].(float64))
		target := l // deadlock: the event that could not be consumed
		if okv, _ := last["ok"].(bool); !okv {
			target = l - 1 // the event consumed last did not match
		}
		pos, found := 0, -1
		for k, j := range live {
			if target > pos && target <= pos+len(j.Events) {
				found = k
				break
			}
			pos += len(j.Events)
		}
		if found < 0 {
			infra("LexTrace: cannot locate rejected trace (id %d, l %d)", id, l)
		}
		c.Add("traces_validated_against_impl", int64(found))
		rejected = append(rejected, live[found])
		live = live[found+1:]
	}
	return rejected
}

// lexTraceCheck records and validates; every rejected trace is reproduced against the
// reference tokenizer before it is reported.
func (c *Ctx) lexTraceCheck(b *LexBatch, inputs [][][]byte, resets int, dbg bool, what string) {
	c.lexTraceCheckPartial(b, inputs, resets, 0, dbg, what)
}

func (c *Ctx) lexTraceCheckPartial(b *LexBatch, inputs [][][]byte, resets, partial int, dbg bool, what string) {
	jobs := c.recordLexTracesPartial(b, inputs, resets, partial, dbg)
	rej := c.validateLexTraces(b, jobs)
	for _, j := range rej {
		d := lexReplayData(j.Case, j.In, resets, true)
		d["partial"] = partial
		rp := Replay{Kind: "lex", Data: d}
		bad, msg := replayLex(c, &rp)
		if !bad && dbg {
			// the per-iteration lines of -debug_lexer show the scan loop's intermediate state, which
			// is not what the property speaks about: when every token (type, extent, line, column)
			// is the reference's, a deviating intermediate line is recorded, not reported
			c.Add("debug_step_deviations_without_effect_on_tokens", 1)
			if c.firstFor("dbgnote" + j.Case.Text) {
				fmt.Printf("NOTE property=%s: the -debug_lexer step lines of input %q deviate from the scan-loop model while every token and position equals the reference; not a violation\n", c.ID, j.In)
			}
			continue
		}
		if !bad {
			infra("%s: trace of input %q rejected by LexTrace but the token stream equals the reference (grammar:\n%s)", what, j.In, j.Case.Text)
		}
		rp.What = fmt.Sprintf("%s: lexer of the grammar below, input %q: %s\n%s", what, j.In, msg, indent(j.Case.Text))
		c.Violation(rp)
	}
}
