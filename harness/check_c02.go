package main

import (
	"fmt"
	"math/rand"
	"time"
)

func init() {
	register("C02", checkC02)
}

var c02Opts = synGenOpts{MaxNT: 4, MaxT: 4, MaxAlts: 3, MaxBody: 3, PEmpty: 0.15, PLit: 0.3, PDup: 0.04, POptRun: 0.35, PSplit: 0.15}

// runMCLRParse model-checks the parse driver over the canonical tables of small grammars
// against the LR-independent language oracle.
func (c *Ctx) runMCLRParse(all []*SynGrammar, maxLen, maxFail int, withInvalid bool, invs []string, liveness bool) {
	// the driver properties are stated for grammars without conflicts (a resolved ambiguous
	// grammar may legitimately reduce forever): keep the conflict-free candidates, as decided
	// by the canonical construction of LR1.tla itself
	abss := make([]synAbs, len(all))
	for i, g := range all {
		abss[i] = g.abstract()
	}
	var gs []*SynGrammar
	for i, s := range c.lrIdealEval(abss) {
		if s.NConf == 0 {
			gs = append(gs, all[i])
		}
	}
	if len(gs) == 0 {
		infra("no conflict-free grammar for MC_LRParse")
	}
	mk := func(maxLen int, liveness bool) string {
		cfg := fmt.Sprintf("SPECIFICATION Spec\nCONSTANTS\n  MaxLen = %d\n  MaxFail = %d\n  WithInvalid = %v\nCHECK_DEADLOCK TRUE\n", maxLen, maxFail, map[bool]string{true: "TRUE", false: "FALSE"}[withInvalid])
		for _, i := range invs {
			cfg += "INVARIANT " + i + "\n"
		}
		if liveness {
			cfg += "PROPERTY Terminates\n"
		}
		return cfg
	}
	// TLC's liveness checking does not scale like its safety checking: beyond the quick bound
	// the invariants are checked at maxLen and termination at maxLen-1
	type run struct {
		maxLen   int
		liveness bool
	}
	runs := []run{{maxLen, liveness}}
	if liveness && maxLen > 4 {
		runs = []run{{maxLen, false}, {maxLen - 1, true}}
	}
	files := map[string][]byte{"grammars.json": mustJSON(mcGrammarEntries(gs))}
	var distinct int64
	var desc []any
	for _, ru := range runs {
		r := c.RunTLC(TLCOpts{Module: "MC_LRParse", Cfg: mk(ru.maxLen, ru.liveness), Timeout: 60 * time.Minute, Files: files})
		if !r.OK {
			infra("MC_LRParse: the model of the parse driver violates its own properties (%s %s); the specification needs attention\n%s", r.ErrKind, r.InvViolated, tail(filterTLC(r.Out), 60))
		}
		c.Add("states", r.Distinct)
		c.Add("transitions", r.Generated)
		distinct += r.Distinct
		desc = append(desc, map[string]any{"max_input_len": ru.maxLen, "termination_checked": ru.liveness, "distinct_states": r.Distinct})
	}
	c.Set("mc_lrparse", map[string]any{"grammars": len(gs), "max_failing_call": maxFail, "distinct_states": distinct, "invariants": invs, "runs": desc})
}

// tinySynGrammars: the exhaustive family of tiny grammars (1 nonterminal + start, 2 terminals,
// two alternatives with bodies up to length 2) plus seeded small random ones.
func tinySynGrammars(rng *rand.Rand, nRandom int, o synGenOpts) []*SynGrammar {
	var gs []*SynGrammar
	syms := []Sym{T(0), T(1), N(0)}
	var bodies [][]Sym
	bodies = append(bodies, nil)
	for _, a := range syms {
		bodies = append(bodies, []Sym{a})
		for _, b := range syms {
			bodies = append(bodies, []Sym{a, b})
		}
	}
	for i := 0; i < len(bodies); i++ {
		for j := i + 1; j < len(bodies); j++ {
			g := &SynGrammar{NTs: []string{"S"}, Terms: []string{"a", "b"}, IsLit: []bool{false, false},
				Prods: []SynProd{{Head: 0, Body: bodies[i], Action: "log"}, {Head: 0, Body: bodies[j], Action: "log"}}}
			g.normalize()
			gs = append(gs, g)
		}
	}
	o.MaxNT, o.MaxT = 3, 3
	for i := 0; i < nRandom; i++ {
		gs = append(gs, genSynGrammar(rng, o))
	}
	return gs
}

func checkC02(c *Ctx) {
	c.Level = "model_checking"
	c.Set("rule", "(1) MC_LRParse: the driver model over canonical LR(1) tables of curated + exhaustive-tiny + random small grammars accepts exactly the oracle's sentences for ALL token strings up to the bound, and terminates (liveness); (2) LRProduct: for every generated grammar that gocc reports conflict-free, TLC explores the whole reachable product of the real tables (read from the compiled parser) with the canonical LR(1) automaton: all token sequences; (3) real Parse runs (all strings up to length k, sentences, mutated sentences) are validated step by step against the driver model over the real tables and, end to end, over the canonical tables. distinct_nontrivial counts conflict-free grammars with >= 4 LR states")
	c.Assume("domain: grammars gocc reports conflict-free, without error alternatives; string literal contents `empty`/`error` are not generated (finding F13)")
	c.Assume("LR theorem (canonical LR(1) tables => exact language) is trusted beyond the bounded inputs on which MC_LRParse re-checks it against the bounded-language oracle of CFG.tla")
	rng := rand.New(rand.NewSource(c.Seed))

	mcg := append(curatedSyn(), tinySynGrammars(rng, c.pick(20, 120), c02Opts)...)
	if c.Quick() {
		mcg = mcg[:min(len(mcg), 90)]
	}
	c.runMCLRParse(mcg, c.pick(4, 5), 0, true, []string{"AcceptsExactlyTheLanguage", "StackBounded", "CallsWellFormed"}, true)

	total := c.pick(40, 400)
	bs := c.pick(60, 120)
	for done := 0; done < total; done += bs {
		n := min(bs, total-done)
		var gs []*SynGrammar
		if done == 0 {
			gs = append(gs, curatedSyn()...)
			gs = append(gs, repoSynGrammars()...)
		}
		for i := 0; i < n; i++ {
			o := c02Opts
			o.PRawLit = 0.12 // literals with a line break, NUL, BOM, tab: no debug output is read here
			gs = append(gs, genSynGrammar(rng, o))
		}
		b := c.buildSynBatch(fmt.Sprintf("syn%d", done), gs, [][]string{nil})
		var cf []*SynCase
		for _, cs := range b.built() {
			if cs.Reported != -1 {
				continue // conflicts are C04/C05's subject
			}
			if p := cs.pairingProblem(); p != "" {
				c.Violation(Replay{Kind: "syntab", What: "token/production numbering of the generated parser: " + p + "\n" + indent(cs.Text), Data: synReplayData(cs, nil)})
				continue
			}
			cf = append(cf, cs)
			if cs.Tables.NStates >= 4 {
				c.Distinct(cs.Text)
			}
		}
		c.Add("evaluations", int64(len(cf)))
		if len(cf) == 0 {
			continue
		}
		c.lrProduct(cf, []string{"LiveAgree", "ActionAgree", "ProdTableAgree", "NoStrayEntries"}, "C02")
		// real runs
		var hs []*synHistory
		for i, cs := range cf {
			for _, in := range synInputs(rng, cs.G, c.pick(3, 4), c.pick(25, 120), c.pick(5, 20), true) {
				hs = append(hs, &synHistory{Case: cs, CaseIx: i, Inputs: []synInput{{Toks: in}}})
			}
		}
		c.recordSynTraces(b, hs)
		for _, mode := range []bool{false, true} {
			for _, h := range c.validateSynTraces(cf, hs, mode, false) {
				c.confirmSynTrace(h, fmt.Sprintf("C02 (trace against the driver model over %s tables)", map[bool]string{false: "the real", true: "the canonical"}[mode]))
			}
		}
		if done == 0 {
			c.Sample(map[string]any{"grammar": cf[len(cf)-1].Text, "lr_states": cf[len(cf)-1].Tables.NStates, "inputs": []string{cf[len(cf)-1].G.inputString(hs[len(hs)-1].Inputs[0].Toks)}})
			c.Sample(map[string]any{"grammar": cf[0].Text, "lr_states": cf[0].Tables.NStates})
		}
	}
	_ = time.Now
}

// confirmSynTrace re-runs a rejected history stand-alone (fresh generation) against the
// canonical machine; only a reproduced deviation is a violation.
func (c *Ctx) confirmSynTrace(h *synHistory, what string) {
	if !c.firstFor(h.Case.Text) {
		return
	}
	rp := Replay{Kind: "syn", Data: synReplayData(h.Case, h.Inputs)}
	bad, msg := replaySyn(c, &rp)
	if !bad {
		infra("%s: trace rejected but not reproduced stand-alone: grammar\n%s\nhistory %v: %s", what, h.Case.Text, h.Inputs, describeSynEvents(h))
	}
	rp.What = fmt.Sprintf("%s: %s\n%s", what, msg, indent(h.Case.Text))
	c.Violation(rp)
}
