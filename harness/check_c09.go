package main

import (
	"encoding/base64"
	"fmt"
	"math/rand"
	"os"
	"path/filepath"
	"regexp"
	"sort"
	"strconv"
	"strings"
	"time"
	"unicode/utf8"
)

func init() {
	register("C09", checkC09)
	replayers["gocc-complete"] = replayGoccComplete
	replayers["gocc-terminates"] = replayGoccTerminates
	replayers["gocc-outdir"] = func(c *Ctx, r *Replay) (bool, string) {
		// the output-directory configurations are a fixed small family: re-run the C09 family and
		// report whether the named case still fails
		name, _ := r.Data["case"].(string)
		return c.outdirCase(name)
	}
}

var allFlagNames = []string{"a", "zip", "no_lexer", "debug_lexer", "debug_parser", "v"}

// writtenPackages lists the package directories below dir that contain .go files.
func writtenPackages(dir string) []string {
	var ps []string
	for _, p := range []string{"token", "util", "lexer", "parser", "errors"} {
		fs, _ := filepath.Glob(filepath.Join(dir, p, "*.go"))
		if len(fs) > 0 {
			ps = append(ps, p)
		}
	}
	sort.Strings(ps)
	return ps
}

type c09Case struct {
	Text    string
	Flags   []string // model flag names
	Feature string   // description
	Row     pipeOutcome
	Sub     string
}

const c09ValidLex = "a : 'a' ;\nb : 'b' 'c' ;\n!ws : ' ' | '\\n' ;\n"

func c09Grammar(parses, hasSyntax bool, conflict string) string {
	switch {
	case !parses && hasSyntax:
		return c09ValidLex + "S : a | ;\n"
	case !parses:
		return "a : 'a' ;\nb : 'b' 'c' \n!ws : ' ' ;\n"
	case !hasSyntax:
		return c09ValidLex
	}
	switch conflict {
	case "sr":
		return c09ValidLex + "E : E \"+\" E | a ;\n"
	case "rr":
		return c09ValidLex + "S : A | B ;\nA : a ;\nB : a ;\n"
	case "accept":
		return c09ValidLex + "S : S | b ;\n"
	}
	return c09ValidLex + "<< import \"fmt\" >>\nS : S a << fmt.Sprint($0, $1), nil >> | b | \"lit\" b ;\n"
}

// c09Lits: the hostile spellings shared with C10 plus raw bytes that the Go compiler refuses in a
// source file when they are copied into it unescaped
var c09Lits = append(append([]string{}, hostileLits...), "a\xffb", "\xff", "a\xef\xbb\xbfb", "a\x00b", "\x7f", "\x1b[0m", "\u2028", "\xc3", "\xed\xa0\x80")

func checkC09(c *Ctx) {
	c.Level = "model_checking"
	c.Set("rule", "Pipeline.tla models main() (stages, exit paths, packages written); TLC checks that every behaviour terminates and that status zero implies exactly the required packages, for all 64 flag sets x all input feature vectors, and emits the outcome table; every row (quick: every row of a seeded half of the flag sets) is instantiated with a concrete grammar and run on the real gocc: zero/non-zero status and the set of packages written must equal the model's, and whenever the status is zero the written packages must compile (go build); hostile spellings (quotes, backslashes, back-quotes, %, {{, */, non-ASCII, raw invalid UTF-8, BOM, NUL and control bytes, long names in string literals, attributes between quote rune literals in actions, token and production names that are Go keywords or identifiers of the generated packages, character literals and action expressions) must compile whenever gocc exits 0; seeded byte-level mutations, bracket towers and all nullable repetition shapes up to depth 3 must terminate. distinct_nontrivial counts distinct (file, flags) runs")
	c.Assume("gocc is run with -o below the working directory of a scratch module whose go.mod names the module (import paths derive from it)")
	tab := c.pipelineTable()
	rng := rand.New(rand.NewSource(c.Seed))

	// ---- 1. the outcome table on the real binary
	var rows []pipeOutcome
	for _, o := range tab {
		rows = append(rows, o)
	}
	sort.Slice(rows, func(i, j int) bool {
		return pipeKey(rows[i].Flags, rows[i].Parses, rows[i].HasSyntax, rows[i].Conflict) < pipeKey(rows[j].Flags, rows[j].Parses, rows[j].HasSyntax, rows[j].Conflict)
	})
	var cases []*c09Case
	for _, o := range rows {
		if c.Quick() && hashKey(fmt.Sprint(o.Flags), fmt.Sprint(c.Seed))[0] > '7' {
			continue
		}
		cases = append(cases, &c09Case{Text: c09Grammar(o.Parses, o.HasSyntax, o.Conflict), Flags: o.Flags, Row: o,
			Feature: fmt.Sprintf("parses=%v syntax=%v conflict=%s", o.Parses, o.HasSyntax, o.Conflict)})
	}
	m := c.NewModule("c09")
	runs := make([]GoccRun, len(cases))
	parallel(len(cases), func(i int) {
		cases[i].Sub = fmt.Sprintf("g%04d", i)
		runs[i] = m.GoccExt(cases[i].Sub, "g.bnf", []byte(cases[i].Text), 60*time.Second, flagArgs(cases[i].Flags)...)
	})
	var toBuild []*c09Case
	for i, cs := range cases {
		c.Add("evaluations", 1)
		c.Distinct(cs.Text + fmt.Sprint(cs.Flags))
		got := writtenPackages(filepath.Join(m.Dir, cs.Sub))
		want := append([]string{}, cs.Row.Written...)
		sort.Strings(want)
		bad := ""
		switch {
		case runs[i].TimedOut:
			bad = "gocc did not terminate within 60 s"
		case (runs[i].Code == 0) != (cs.Row.Status == 0):
			bad = fmt.Sprintf("exit status %d, the model says %d", runs[i].Code, cs.Row.Status)
		case runs[i].Code == 0 && strings.Join(got, ",") != strings.Join(want, ","):
			bad = fmt.Sprintf("status 0 but packages written %v, the configuration calls for %v", got, want)
		}
		if bad != "" && c.firstFor(cs.Text+fmt.Sprint(cs.Flags)) {
			c.Violation(Replay{Kind: "gocc-complete", What: fmt.Sprintf("gocc %v on a grammar with %s: %s\n%s", flagArgs(cs.Flags), cs.Feature, bad, indent(cs.Text)),
				Data: textData(cs.Text, map[string]any{"flags": flagArgs(cs.Flags), "zero": cs.Row.Status == 0, "written": want})})
		}
		if runs[i].Code == 0 {
			toBuild = append(toBuild, cs)
		}
	}
	c.buildAll(m, toBuild)
	if len(cases) > 0 {
		c.Sample(map[string]any{"flags": flagArgs(cases[len(cases)/2].Flags), "features": cases[len(cases)/2].Feature, "model_status": cases[len(cases)/2].Row.Status, "model_written": cases[len(cases)/2].Row.Written})
	}

	// ---- 1b. where the output goes: -o with several path components, and -p with the current
	// directory as output directory; the import paths inside the generated packages must resolve
	{
		text := c09Grammar(true, true, "none")
		mo := c.NewModule("c09o")
		type oc struct {
			name string
			cwd  string
			args []string
			pkgs string
		}
		mustWrite(filepath.Join(mo.Dir, "deep", "er", "est", "g.bnf"), []byte(text))
		mustWrite(filepath.Join(mo.Dir, "here", "g.bnf"), []byte(text))
		mustWrite(filepath.Join(mo.Dir, "g.bnf"), []byte(text))
		ocs := []oc{
			{"-o a/b/c (three components)", mo.Dir, []string{"-o", "a/b/c", "g.bnf"}, "./a/b/c/..."},
			{"-o deep/er/est with the grammar inside", mo.Dir, []string{"-a", "-zip", "-o", "deep/er/est", "deep/er/est/g.bnf"}, "./deep/er/est/..."},
			{"no -o, run inside a sub-directory (default package from go.mod)", filepath.Join(mo.Dir, "here"), []string{"g.bnf"}, "./here/..."},
			{"-p with the current directory as output directory", filepath.Join(mo.Dir, "here"), []string{"-p", "scratch/here", "-v", "g.bnf"}, "./here/..."},
			{"absolute -o below the working directory", mo.Dir, []string{"-o", filepath.Join(mo.Dir, "abs", "out"), "g.bnf"}, "./abs/out/..."},
		}
		for _, o := range ocs {
			c.Add("evaluations", 1)
			r := runCmd(cmdOpts{Dir: o.cwd, Timeout: 60 * time.Second, Env: goEnv()}, c.Gocc, o.args...)
			bad := ""
			if r.TimedOut || r.Code != 0 {
				bad = fmt.Sprintf("gocc %v (in %s) exits %d: %s", o.args, o.cwd, r.Code, strings.TrimSpace(tail(r.Out, 2)))
			} else if out, ok := mo.BuildPkgs(o.pkgs); !ok {
				bad = fmt.Sprintf("gocc %v exits 0 but the output does not build (import paths): %s", o.args, tail(out, 4))
			} else if w := writtenPackages(filepath.Join(mo.Dir, strings.TrimSuffix(strings.TrimPrefix(o.pkgs, "./"), "/..."))); len(w) != 5 {
				bad = fmt.Sprintf("gocc %v exits 0 but wrote only %v", o.args, w)
			}
			if bad != "" && c.firstFor("outdir"+o.name) {
				c.Violation(Replay{Kind: "gocc-outdir", What: o.name + ": " + bad, Data: map[string]any{"case": o.name}})
			}
		}
		c.Set("output_directory_configurations", len(ocs))
	}

	// ---- 2. hostile spellings
	var hcases []*c09Case
	nh := c.pick(40, 300)
	for i := 0; i < nh; i++ {
		var text string
		switch i % 3 {
		case 0:
			o := c02Opts
			o.PLit = 0.7
			g := genSynGrammar(rng, o)
			used := map[string]bool{}
			for k := range g.Terms {
				if g.IsLit[k] {
					h := c09Lits[rng.Intn(len(c09Lits))]
					if rng.Intn(6) == 0 {
						h = strings.Repeat("long_", 300)
					}
					if !used[h] && !(strings.ContainsAny(h, "\"\\") && strings.Contains(h, "`")) && h != "\t" {
						used[h] = true
						g.Terms[k] = h
					}
				}
			}
			for pi := range g.Prods {
				switch rng.Intn(7) {
				case 0:
					g.Prods[pi].Action = "\"%d {{ }} */ /* \\\" \\\\ é 日本 $x\", nil"
				case 1:
					g.Prods[pi].Action = "`raw %s {{.}} */`, nil"
				case 3:
					// an action is an expression list; what it begins with is no keyword just because
					// it begins like one
					if len(g.Prods[pi].Body) > 0 {
						g.Header = "\nfunc returnIt(x interface{}) (interface{}, error) { return x, nil }\nfunc nilOr(x interface{}) (interface{}, error) { return x, nil }\nfunc errorf(x interface{}) (interface{}, error) { return x, nil }\n"
						g.Prods[pi].Action = []string{"returnIt($0)", "nilOr($0)", "errorf($0)"}[rng.Intn(3)]
					}
				case 2:
					// attributes between rune literals of quotes: where a string seems to begin
					// is for the Go scanner to say
					if len(g.Prods[pi].Body) > 0 {
						g.Prods[pi].Action = "[]interface{}{'\"', $0, '\"', '`', $0, '`', '\\'', \"'\", $0, '\\\\'}, nil"
					}
				}
			}
			text = g.render()
		case 1:
			lg := genLexGrammar(rng, lexGenOpts{MaxToks: 5, MaxIgn: 2, MaxDefs: 2, MaxLits: 0, Depth: 3, ForcePool: []rune{'"', '`', '\\', '%', '{', '*', '/', '\'', 0}})
			text = lg.render()
		default:
			lg := genLexGrammar(rng, lexGenOpts{MaxToks: 3, MaxIgn: 1, MaxDefs: 1, MaxLits: 0, Depth: 2})
			lits := []string{}
			for k := 0; k < 1+rng.Intn(3); k++ {
				lits = append(lits, c09Lits[rng.Intn(len(c09Lits))])
			}
			seen := map[string]bool{}
			var alts []string
			for _, l := range lits {
				if seen[l] || strings.ContainsAny(l, "\"\\") && strings.Contains(l, "`") || l == "\t" {
					continue
				}
				seen[l] = true
				alts = append(alts, quoteLit(l))
			}
			text = lg.renderLex() + "\nStart : " + strings.Join(alts, " | ") + " ;\n"
		}
		fl := []string{"a"}
		if i%5 == 0 {
			fl = append(fl, "zip")
		}
		if i%7 == 0 {
			fl = append(fl, "debug_parser", "debug_lexer")
		}
		hcases = append(hcases, &c09Case{Text: strings.ReplaceAll(text, "@@PKG@@", "scratch/x"), Flags: fl, Feature: "hostile spellings"})
	}
	// names that mean something in Go or in the generated packages, as token and production names
	idPool := []string{"type", "func", "package", "import", "var", "const", "range", "token", "pos", "context", "sourcer", "tokMap", "tokenMap",
		"eOF", "iNVALID", "init", "main", "nil", "true", "string", "int", "len", "lexer", "parser", "errors", "util", "fmt", "attrib", "stack",
		"newParser", "actionTable", "gotoTable", "productionsTable", "x", "lit", "id"}
	ntPool := []string{"Type", "Token", "Pos", "Parser", "Attrib", "Error", "NewParser", "ProdTab", "ActionTable", "Context", "Func", "String", "X", "Lexer", "Init", "Main"}
	for i := 0; i < c.pick(8, 60); i++ {
		o := c02Opts
		o.PLit, o.Actions = 0, i%2 == 0
		g := genSynGrammar(rng, o)
		rng.Shuffle(len(idPool), func(a, b int) { idPool[a], idPool[b] = idPool[b], idPool[a] })
		rng.Shuffle(len(ntPool), func(a, b int) { ntPool[a], ntPool[b] = ntPool[b], ntPool[a] })
		for k := range g.Terms {
			if !g.IsLit[k] && g.Terms[k] != "error" && g.Terms[k] != "empty" {
				g.Terms[k] = idPool[k%len(idPool)]
			}
		}
		for k := range g.NTs {
			g.NTs[k] = ntPool[k%len(ntPool)]
		}
		hcases = append(hcases, &c09Case{Text: g.render(), Flags: []string{"a"}, Feature: "names that mean something in Go or in the generated code"})
	}
	// ordinary grammars with logging actions over the whole $-vocabulary ($10 and above included)
	for _, g := range append(curatedActionSyn(), curatedErrSyn()...) {
		for i := range g.Prods {
			if g.Prods[i].Action == "" && len(g.Prods[i].Body) > 0 {
				g.Prods[i].Action = "log"
			}
		}
		hcases = append(hcases, &c09Case{Text: g.render(), Flags: []string{"a"}, Feature: "valid action expressions"})
	}
	mh := c.NewModule("c09h")
	mh.installVlog()
	hruns := make([]GoccRun, len(hcases))
	parallel(len(hcases), func(i int) {
		hcases[i].Sub = fmt.Sprintf("h%04d", i)
		hcases[i].Text = strings.ReplaceAll(hcases[i].Text, "@@PKG@@", "scratch/"+hcases[i].Sub)
		hruns[i] = mh.GoccExt(hcases[i].Sub, "g.bnf", []byte(hcases[i].Text), 60*time.Second, flagArgs(hcases[i].Flags)...)
	})
	var hb []*c09Case
	for i, cs := range hcases {
		c.Add("evaluations", 1)
		c.Distinct(cs.Text)
		if hruns[i].TimedOut {
			if c.firstFor(cs.Text) {
				c.Violation(Replay{Kind: "gocc-terminates", What: "gocc did not terminate within 60 s on\n" + indent(cs.Text), Data: textData(cs.Text, map[string]any{"flags": flagArgs(cs.Flags)})})
			}
			continue
		}
		if hruns[i].Code == 0 {
			hb = append(hb, cs)
		}
	}
	c.buildAll(mh, hb)
	c.Set("hostile_grammars_with_status_zero_compiled", len(hb))

	// ---- 3. termination on arbitrary bytes and on nullable repetition shapes
	c.terminationSweep(rng)
}

// buildAll compiles the packages of every case (status zero); a package that does not
// compile is a violation with its own replay.
func (c *Ctx) buildAll(m *Module, cases []*c09Case) {
	if len(cases) == 0 {
		return
	}
	args := []string{"build"}
	for _, cs := range cases {
		args = append(args, "./"+cs.Sub+"/...")
	}
	r := runCmd(cmdOpts{Dir: m.Dir, Env: goEnv(), Timeout: 20 * time.Minute}, "go", args...)
	out, ok := r.Out, r.Code == 0
	c.Add("packages_compiled", int64(len(cases)))
	if ok {
		return
	}
	// find the culprits
	bad := make([]string, len(cases))
	parallel(len(cases), func(i int) {
		if o, ok := m.BuildPkgs("./" + cases[i].Sub + "/..."); !ok {
			bad[i] = tail(o, 6)
		}
	})
	found := false
	for i, cs := range cases {
		if bad[i] != "" {
			found = true
			if c.firstFor(cs.Text + fmt.Sprint(cs.Flags)) {
				c.Violation(Replay{Kind: "gocc-complete", What: fmt.Sprintf("gocc %v exits 0 but the generated packages do not compile:\n%s\n%s", flagArgs(cs.Flags), indent(bad[i]), indent(cs.Text)),
					Data: textData(cs.Text, map[string]any{"flags": flagArgs(cs.Flags), "zero": true, "written": nil})})
			}
		}
	}
	if !found {
		infra("go build ./... failed but every package builds alone:\n%s", tail(out, 20))
	}
}

// nullableShapes: all patterns of depth <= depth over [] {} () whose innermost body is 'a'
func nullableShapes(depth int) []string {
	shapes := []string{"'a'"}
	all := []string{}
	for d := 0; d < depth; d++ {
		var next []string
		for _, s := range shapes {
			next = append(next, "["+s+"]", "{"+s+"}", "("+s+")", "{"+s+" | 'b'}", "["+s+"] 'c'")
		}
		shapes = next
		all = append(all, next...)
	}
	return all
}

func (c *Ctx) terminationSweep(rng *rand.Rand) {
	var texts []string
	for _, s := range nullableShapes(3) {
		texts = append(texts, "t : "+s+" 'z' ;\n", "t : 'y' "+s+" ;\nu : "+s+" 'x' "+s+" ;\n")
	}
	// bracket towers
	for _, n := range []int{5, 50, 400} {
		texts = append(texts, "t : "+strings.Repeat("{[(", n)+"'a'"+strings.Repeat(")]}", n)+" ;\n")
		texts = append(texts, "t : "+strings.Repeat("{", n)+"'a'"+strings.Repeat("}", n)+" 'b' ;\n")
	}
	// byte-level mutations of valid grammars
	bases := []string{c09Grammar(true, true, "none"), c09Grammar(true, true, "sr"), c09Grammar(true, false, "none")}
	for i := 0; i < 6; i++ {
		bases = append(bases, genSynGrammar(rng, c02Opts).render(), genLexGrammar(rng, c01Opts).render())
	}
	nm := c.pick(150, 2000)
	for i := 0; i < nm; i++ {
		b := []byte(bases[rng.Intn(len(bases))])
		for k := 0; k < 1+rng.Intn(4); k++ {
			switch rng.Intn(5) {
			case 0:
				b[rng.Intn(len(b))] ^= 1 << uint(rng.Intn(8))
			case 1:
				j := rng.Intn(len(b))
				b = b[:j]
			case 2:
				j, l := rng.Intn(len(b)), rng.Intn(len(b))
				if j > l {
					j, l = l, j
				}
				b = append(append([]byte{}, b[:l]...), b[j:]...)
			case 3:
				j := rng.Intn(len(b) + 1)
				ins := []string{"{", "[", "(", "'", "\"", "`", "<<", "/*", "//", "\x00", "\xff", "{{", "| ;", ": :"}[rng.Intn(14)]
				b = append(append(append([]byte{}, b[:j]...), ins...), b[j:]...)
			case 4:
				j := rng.Intn(len(b))
				b[j] = byte(rng.Intn(256))
			}
			if len(b) == 0 {
				b = []byte{' '}
			}
		}
		texts = append(texts, string(b))
	}
	m := c.NewModule("c09t")
	runs := make([]GoccRun, len(texts))
	parallel(len(texts), func(i int) {
		fl := []string{}
		if i%2 == 0 {
			fl = append(fl, "-a")
		}
		if i%3 == 0 {
			fl = append(fl, "-v")
		}
		runs[i] = m.GoccExt(fmt.Sprintf("t%04d", i), "g.bnf", []byte(texts[i]), 20*time.Second, fl...)
	})
	var zero []*c09Case
	for i, t := range texts {
		c.Add("evaluations", 1)
		c.Distinct(t)
		if runs[i].TimedOut {
			// confirm with a longer limit before calling it non-termination (at most 3 confirmations
			// per run: each costs the full limit)
			if c.Get("timeouts_confirmed") >= 3 {
				c.Add("timeouts_not_confirmed", 1)
				continue
			}
			c.Add("timeouts_confirmed", 1)
			rp := Replay{Kind: "gocc-terminates", Data: textData(t, map[string]any{"flags": []string{"-a"}})}
			if bad, msg := replayGoccTerminates(c, &rp); bad && c.firstFor(t) {
				rp.What = "gocc does not terminate (" + msg + ") on\n" + indent(fmt.Sprintf("%q", t))
				c.Violation(rp)
			}
			continue
		}
		// compile-check only files without Go fragments of the user (file header, action
		// expressions): a mutation inside such a fragment makes invalid Go, which is the user's
		// business, not gocc's
		if runs[i].Code == 0 && !strings.Contains(t, "<<") {
			fl := []string{}
			if i%2 == 0 {
				fl = append(fl, "a")
			}
			if i%3 == 0 {
				fl = append(fl, "v")
			}
			zero = append(zero, &c09Case{Text: t, Flags: fl, Sub: fmt.Sprintf("t%04d", i)})
		}
	}
	c.buildAll(m, zero)
	c.Set("termination_inputs", len(texts))
	c.Set("mutants_with_status_zero_compiled", len(zero))
}

func replayGoccComplete(c *Ctx, r *Replay) (bool, string) {
	text := dataText(r.Data)
	var flags []string
	if f, ok := r.Data["flags"].([]any); ok {
		for _, x := range f {
			flags = append(flags, fmt.Sprint(x))
		}
	}
	wantZero, _ := r.Data["zero"].(bool)
	c.mu.Lock()
	c.tlcSeq++
	tag := fmt.Sprintf("c09r%03d", c.tlcSeq)
	c.mu.Unlock()
	m := c.NewModule(tag)
	m.installVlog()
	// the import path of the generated token package depends on the output directory
	text = regexp.MustCompile(`"scratch/[a-z]+[0-9]+/token"`).ReplaceAllString(text, `"scratch/g000/token"`)
	text = strings.ReplaceAll(text, "@@PKG@@", "scratch/g000")
	run := m.GoccExt("g000", "g.bnf", []byte(text), 200*time.Second, flags...)
	if run.TimedOut {
		return true, "gocc did not terminate within 200 s"
	}
	if (run.Code == 0) != wantZero {
		return true, fmt.Sprintf("exit status %d", run.Code)
	}
	if run.Code != 0 {
		return false, "non-zero status as specified"
	}
	if w, ok := r.Data["written"].([]any); ok && w != nil {
		var want []string
		for _, x := range w {
			want = append(want, fmt.Sprint(x))
		}
		sort.Strings(want)
		got := writtenPackages(filepath.Join(m.Dir, "g000"))
		if strings.Join(got, ",") != strings.Join(want, ",") {
			return true, fmt.Sprintf("packages written %v, required %v", got, want)
		}
	}
	if o, ok := m.BuildPkgs("./g000/..."); !ok {
		return true, "generated packages do not compile: " + tail(o, 4)
	}
	return false, "status zero, complete and compilable"
}

func replayGoccTerminates(c *Ctx, r *Replay) (bool, string) {
	text := dataText(r.Data)
	var flags []string
	switch f := r.Data["flags"].(type) {
	case []any:
		for _, x := range f {
			flags = append(flags, fmt.Sprint(x))
		}
	case []string:
		flags = f
	}
	c.mu.Lock()
	c.tlcSeq++
	tag := fmt.Sprintf("c09tr%03d", c.tlcSeq)
	c.mu.Unlock()
	m := c.NewModule(tag)
	run := m.GoccExt("g000", "g.bnf", []byte(text), 100*time.Second, flags...)
	if run.TimedOut {
		return true, "still running after 100 s (five times the first limit)"
	}
	return false, fmt.Sprintf("terminated with status %d after %.1f s", run.Code, run.Dur.Seconds())
}

var _ = os.Stat

// outdirCase re-runs one output-directory configuration (by name) of C09.
func (c *Ctx) outdirCase(name string) (bool, string) {
	text := c09Grammar(true, true, "none")
	mo := c.NewModule("c09or")
	mustWrite(filepath.Join(mo.Dir, "deep", "er", "est", "g.bnf"), []byte(text))
	mustWrite(filepath.Join(mo.Dir, "here", "g.bnf"), []byte(text))
	mustWrite(filepath.Join(mo.Dir, "g.bnf"), []byte(text))
	type oc struct {
		name, cwd string
		args      []string
		pkgs      string
	}
	for _, o := range []oc{
		{"-o a/b/c (three components)", mo.Dir, []string{"-o", "a/b/c", "g.bnf"}, "./a/b/c/..."},
		{"-o deep/er/est with the grammar inside", mo.Dir, []string{"-a", "-zip", "-o", "deep/er/est", "deep/er/est/g.bnf"}, "./deep/er/est/..."},
		{"no -o, run inside a sub-directory (default package from go.mod)", filepath.Join(mo.Dir, "here"), []string{"g.bnf"}, "./here/..."},
		{"-p with the current directory as output directory", filepath.Join(mo.Dir, "here"), []string{"-p", "scratch/here", "-v", "g.bnf"}, "./here/..."},
		{"absolute -o below the working directory", mo.Dir, []string{"-o", filepath.Join(mo.Dir, "abs", "out"), "g.bnf"}, "./abs/out/..."},
	} {
		if o.name != name {
			continue
		}
		r := runCmd(cmdOpts{Dir: o.cwd, Timeout: 60 * time.Second, Env: goEnv()}, c.Gocc, o.args...)
		if r.TimedOut || r.Code != 0 {
			return true, fmt.Sprintf("gocc %v exits %d", o.args, r.Code)
		}
		if out, ok := mo.BuildPkgs(o.pkgs); !ok {
			return true, "output does not build: " + tail(out, 3)
		}
		return false, "status zero and the output builds"
	}
	return false, "unknown configuration"
}

// textData stores a grammar file in replay data: as it is when it is valid UTF-8 (readable,
// and the form of the replays recorded before), in base64 otherwise (JSON would replace the
// invalid bytes).
func textData(text string, d map[string]any) map[string]any {
	if utf8.ValidString(text) {
		d["text"] = text
	} else {
		d["text_b64"] = base64.StdEncoding.EncodeToString([]byte(text))
		d["text_shown"] = strconv.QuoteToASCII(text)
	}
	return d
}

func dataText(d map[string]any) string {
	if b, ok := d["text_b64"].(string); ok {
		if raw, err := base64.StdEncoding.DecodeString(b); err == nil {
			return string(raw)
		}
	}
	t, _ := d["text"].(string)
	return t
}
