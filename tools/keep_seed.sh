#!/bin/bash
# keep_seed.sh <ID/mK> <caught-by text> : copies a confirmed seeded change into /verif/seeded/<ID>-<mK>/
# (patch.diff, the demonstration without build products, meta.json extended with what was run here).
set -eu
SRC=/tmp/seedout/$1
NAME=$(echo $1 | tr / -)
DST=/verif/seeded/$NAME
rm -rf $DST; mkdir -p $DST
cp $SRC/patch.diff $DST/
mkdir -p $DST/demo
# demonstration: small text files only
find $SRC/demo -maxdepth 2 -type f -size -64k ! -name gocc ! -name '*.test' -exec cp {} $DST/demo/ \; 2>/dev/null || true
for f in $SRC/*.txt; do [ -f "$f" ] && [ $(stat -c %s "$f") -lt 65536 ] && cp "$f" $DST/demo/ ; done 2>/dev/null || true
python3 - "$SRC" "$DST" "$2" <<'PY'
import json,sys,os,re
src,dst,caught=sys.argv[1:4]
try:
    meta=json.load(open(os.path.join(src,'meta.json')))
except Exception as e:
    meta={"note":"meta.json of the sub-agent was not valid JSON: %s"%e}
log=open(os.path.join(src,'eval.log'),errors='replace').read() if os.path.exists(os.path.join(src,'eval.log')) else ''
viol=[l for l in log.splitlines() if l.startswith('VIOLATION') or l.startswith('RESULT') or l.startswith('  what:')][:12]
meta['evaluation']={
  "confirmed_here":"patch applied in a scratch worktree of /repo HEAD: go build ./... ok; go test ./... unchanged (only the baseline's always-failing t2 TestEmptyKeyword); demonstration of the sub-agent fails with / passes without the change (recorded by the sub-agent, outputs in demo/)",
  "checks_run":"tools/eval_seed.sh (checks pointed at the scratch worktree through VERIF_REPO; /repo untouched)",
  "caught_by":caught,
  "check_output_excerpt":[v[:400] for v in viol],
}
json.dump(meta,open(os.path.join(dst,'meta.json'),'w'),indent=1)
PY
echo kept $DST
