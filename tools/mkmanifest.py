#!/usr/bin/env python3
"""Regenerates /verif/MANIFEST.json from the table below (one place to edit)."""
import json, subprocess

props = [json.loads(l) for l in open('/verif/properties.jsonl')]

def chk(pid, level, text, note, technique, design, thorough=True, engine="tla"):
    d = {
        "property_id": pid,
        "quick_cmd": "/verif/bin/verif check %s --tier quick" % pid,
        "evidence_file": "/verif/evidence/%s.json" % pid,
        "replay_cmd_template": "/verif/bin/verif replay {path}",
        "engine": engine,
        "level_claimed": {"category": level, "text": text, "design_ref": design},
        "level_note": note,
        "technique": technique,
    }
    if thorough:
        d["thorough_cmd"] = "/verif/bin/verif check %s --tier thorough" % pid
    return d

TRUST = "Trusted: TLC/SANY, the Go toolchain, unicode/utf8, the harness's atom computation and BNF rendering. Quantification over grammars is by seeded sampling plus curated shapes; per grammar the input quantifier is closed by exhaustive product exploration."

checks = [
 chk("C01", "model_checking",
     "Per generated grammar TLC explores the whole reachable product of the real DFA (read out of the compiled generated lexer) with the TLA+ pattern semantics (Regex.tla: Antimirov derivatives, '.'-as-fallback, regdef macro expansion, priority rule) - every text, not a sample; the Scan loop is model-checked against every automaton (MC_LexScan) and real Scan runs are validated against it and against the TLA+ reference tokenizer. Counterexamples are replayed on the real lexer before they are reported.",
     TRUST + " Domain restrictions (no nullable token pattern, conflation-free regdef classes because of known finding F4) are listed in the evidence file.",
     "TLA+ spec (Regex/LexProduct/LexRef/LexScan) + TLC product reachability against tables read from the generated code + trace validation", "5/C01"),
 chk("C08", "model_checking",
     "The Scan loop is an explicit TLA+ state machine (LexScan.tla, one action per loop iteration). TLC checks exact positions, tiling, last-live-state-wins and sticky EOF for ALL automaton outcomes and all texts up to the bound; real lexers (plain and -debug_lexer) are then run and every recorded trace (per Scan call / per loop iteration) is validated by TLC against the same model instantiated with the real automaton; token streams are also compared with the TLA+ reference position function.",
     TRUST, "TLA+ spec (LexScan/MC_LexScan/LexTrace/LexRef) + TLC exhaustive model checking + trace validation of real runs", "5/C08"),
 chk("C02", "model_checking",
     "For every generated grammar gocc reports conflict-free, TLC explores the WHOLE reachable product of the real action/goto/production tables (read out of the compiled parser) with the canonical LR(1) automaton of LR1.tla, so table agreement holds for every token sequence; the parse driver is an explicit TLA+ state machine (LRParse.tla) that TLC checks, over canonical tables of curated/exhaustive-tiny/random grammars and ALL inputs up to the bound, to accept exactly the sentences of an LR-independent language oracle and to terminate; real Parse runs are validated step by step against that driver model over the real and over the canonical tables.",
     TRUST + " LR theorem beyond the bounded inputs re-checked in MC_LRParse.",
     "TLA+ spec (CFG/LR1/LRProduct/LRParse/MC_LRParse/LRTrace) + TLC product reachability against tables read from the generated code + trace validation", "5/C02"),
 chk("C03", "model_checking",
     "The driver model carries attributes (token identity, value identity of earlier action results, nil, error attributes); TLC checks post-order/yield/arity and stop-at-failing-action for all small inputs and all failing-call choices; every action call of real runs (production, argument identities, call number, injected failure and the returned error) is validated by TLC against the model over the real and the canonical tables.",
     TRUST, "TLA+ spec (LRParse/MC_LRParse/LRTrace) + TLC model checking + trace validation of logged action calls", "5/C03"),
 chk("C04", "model_checking",
     "The canonical LR(1) automaton of each grammar (conflicting states, accept conflicts) is computed by TLC from LR1.tla; the exit/announcement policy is the outcome table of the TLC-checked Pipeline.tla state machine; the real gocc, with and without -a, must announce exactly when and how many states conflict and exit as the policy says. Every disagreement is a concrete grammar + flag set replayed on the real binary. Grammars with error alternatives are included; a family with a known number of conflicting states (confirmed by TLC for its small members) is run at 255/256/257 conflicts. As coverage beyond the property (NOTE only, never a verdict) the -v listings first.txt and LR1_sets.txt are judged by LRVerbose.tla against CFG.tla/LR1.tla.",
     TRUST, "TLA+ spec (LR1/LRIdealEval/Pipeline) evaluated/model-checked by TLC, compared with real gocc runs", "5/C04"),
 chk("C05", "model_checking",
     "TLC shows the pairwise resolution rule is order independent and equals shift-else-earliest-production for every competing set and permutation; for grammars with conflicts generated with -a TLC explores the whole product of the real tables with the canonical automaton resolved by that rule; real runs are validated against the resolved canonical machine (verdict and reductions).",
     TRUST, "TLA+ spec (LR1/MC_Resolve/LRProduct/LRTrace) + TLC product reachability + trace validation", "5/C05"),
 chk("C06", "model_checking",
     "TLC checks on canonical tables of small reduced grammars and ALL inputs up to the bound that a failing parse names the first offending token, runs no action on it and reports exactly the viable continuations (prefix oracle independent of LR); LRProduct shows the real tables are the canonical ones; the error values of real failing runs (token object identity, type, expected set, no later action call) are validated against the driver model; ErrMsg.tla states how an error value is rendered as text (Error(), String(), Pos.String()), TLC checks that the text shows every expected terminal in order, the position and the lexeme, and its table of texts is replayed on the generated errors/token packages.",
     TRUST, "TLA+ spec (CFG oracle/LR1/LRParse/LRProduct/LRTrace/ErrMsg) + TLC model checking + trace validation + replay of TLC-computed outcomes", "5/C06"),
 chk("C07", "model_checking",
     "Recovery is modelled as explicit actions (Recover/Skip/Resume/GiveUp/Fail) written from the statement; TLC checks deadlock-freedom, termination, token order and inertness on error-free inputs over canonical tables for all small inputs; LRProduct requires the real recovery flags to mark exactly the states that can shift error; real runs (a panic is an event no action matches) are validated against the model over real and canonical tables.",
     TRUST + " Domain: alternatives that begin with error (F8 is a known finding elsewhere).", "TLA+ spec (LRParse recovery actions/MC_LRParse/LRProduct/LRTrace) + TLC model checking + trace validation", "5/C07"),
 chk("C10", "model_checking",
     "The behaviour of the generated token.TokMap is observed by executing the compiled package; TLC checks numbering, mutual inverse and unknown-name rules (TokenMap.tla) on every observed map; LexProduct/LRProduct pair lexer accept numbers and parser columns with the specification by name through the real map over all reachable product states, for lexer-only, -no_lexer and combined grammars with hostile spellings (a pool that is walked through in every run, on the parser's and on the lexer's side), a share of them generated with -v.",
     TRUST, "TLA+ spec (TokenMap/LexProduct/LRProduct) checked by TLC on maps and tables read from the generated code", "5/C10"),
 chk("C16", "model_checking",
     "Histories of Parse calls on one parser object and Scan/Reset histories on one lexer object are recorded from the real code; the models start every Parse / every post-Reset scan from the fresh configuration, so TLC accepting the trace of the k-th call IS history independence; TLC also explores Reset at every call boundary of the Scan-loop model.",
     TRUST, "TLA+ spec (LRParse/LexScan + trace specs) + TLC model checking + trace validation of call histories", "5/C16"),
 chk("C18", "model_checking",
     "AddRange is transcribed case by case into Ranges.tla; TLC explores every sequence of closed intervals over a small universe up to the bound and checks the five partition properties (plus coarsest-partition) after every insertion, with -coverage proving all eleven cases are taken; the model's outcome table is replayed on the real DisjunctRangeSet in every insertion order (in-package test through go test -overlay), random sequences over the whole rune range are compared with an end-point construction.",
     TRUST, "TLA+ transcription (Ranges.tla) exhaustively model-checked by TLC + model-based test replay on the real code", "5/C18"),
 chk("C19", "model_checking",
     "loadMd is transcribed into Md.tla with the property's reference (blank fences and prose, keep code/newlines/length); TLC checks equality for every input up to the bound inside the property's domain; the outcome table is replayed on the real loadMd/GetSource; end to end the .md run and the run on the concatenated fenced blocks must give byte-identical packages/exit status, and diagnostics must carry markdown positions.",
     TRUST, "TLA+ transcription + reference (Md.tla) exhaustively model-checked by TLC + model-based test replay + end-to-end differential runs of gocc", "5/C19"),
 chk("C20", "model_checking",
     "LitConv.tla states Go's rune-literal rule and transcribes RuneValue/escapeCharVal; TLC enumerates every valid ASCII-spelled literal over the boundary digit set and checks agreement; the enumerated literals are replayed on util.RuneValue (generated), util.LitToRune (generator, overlay) and through one-token grammars on the real gocc. The all-code-points sweep and IntValue/UintValue are a plain Go loop against strconv (pure-function territory, outside TLC, stated as such).",
     TRUST + " strconv.UnquoteChar as the definition of Go literal semantics for the sweep.", "TLA+ case analysis (LitConv.tla) evaluated by TLC as oracle and test generator + replay on the three real consumers; exhaustive Go sweep against strconv for the pure-function half", "5/C20"),
 chk("C14", "model_checking",
     "Grammar files are produced from harness-rendered base grammars by seeded token-level and consistency mutations; GoccSyntax.tla judges each file: its token sequence is run through the canonical LR(1) machine of spec/gocc2.ebnf computed by LR1.tla (nothing of the shipped tables is used), and definitions/references are checked for undefined and duplicate names; for every file judged ill-formed the real gocc must exit non-zero. One-directional (ill => refused), as the property states. The operators include character sequences that form no token (stray punctuation, malformed and unterminated literals and comments); comments are sprinkled over a third of the files.",
     TRUST + " The harness tokenises only texts it rendered itself (classification by construction). Known finding F8 (error/empty are token identifiers to gocc) is excluded from the mutation operators and replayed as KNOWN-FINDING.",
     "TLA+ oracle (GoccSyntax.tla over LR1.tla, evaluated by TLC) on seeded mutants + real gocc runs", "5/C14"),
 chk("C15", "model_checking",
     "spec/gocc2.ebnf is read independently; the shipped front-end tables are dumped in-package; TLC explores the whole reachable product of the shipped tables with the canonical LR(1) automaton of the documented grammar (every token sequence; productions matched by head and body); the shipped parser is driven through its exported Parse with logging reduce functions and every trace is validated against the driver model over the canonical tables of the documented grammar.",
     TRUST, "TLA+ spec (LR1/LRProduct/LRParse/LRTrace) + TLC product reachability against the shipped tables + trace validation of the shipped parser", "5/C15"),
 chk("C09", "model_checking",
     "main() is an explicit TLA+ state machine (Pipeline.tla: stages, exit paths, packages written); TLC checks termination and status-zero-means-complete for all 64 flag sets x all input feature vectors and emits the outcome table; every row is instantiated with a concrete grammar on the real gocc (zero/non-zero status, packages written, go build of what was written). Hostile spellings must compile whenever gocc exits 0; seeded byte mutations, bracket towers and every nullable repetition shape up to depth 3 must terminate (a time-out is confirmed with a five-fold limit before it is reported). Hostile spellings include raw invalid UTF-8, NUL and BOM in literals, attributes between quote rune literals and actions that begin like keywords, and token/production names that are Go keywords or identifiers of the generated packages.",
     TRUST + " Termination on arbitrary bytes is sampled (fault-injection style), not proved.",
     "TLA+ spec (Pipeline.tla) model-checked by TLC, its outcome table replayed on the real binary; seeded mutation sweep for termination/compilability", "5/C09"),
 chk("C11", "exploration",
     "The specification side (Pipeline.tla, LR1.tla, Regex.tla) admits one outcome per (file, flags): TLC reports maximum out-degree 1 for the pipeline; the real gocc is run k times per (grammar, flags) in fresh processes with different GOMAXPROCS and must produce byte-identical .go files, exit status and conflict count. Differential over runs - exploration, not a proof about Go's map order or scheduler. The population includes lexical grammars with several ignored tokens and a family with several hundred LR(1) states and conflicting rows.",
     "Trusted: the Go runtime randomises map iteration per process; k runs sample it.", "TLA+ determinism of the pipeline model (TLC) + repeated real runs compared byte for byte", "5/C11"),
 chk("C12", "model_checking",
     "Pipeline.tla's outcome table shows presentation flags never change status/announcement/packages (only -no_lexer drops the lexer); for generated grammars each flag variant's decoded tables must equal the plain build's, and the variant's real runs are validated by TLC against the driver and scan-loop models instantiated with the PLAIN build's tables - debug builds at step granularity through their own -debug_lexer/-debug_parser output. Error-recovery grammars and grammars with tokens only the lexical part knows are part of the population; a larger family of conflict-rich grammars is generated plain and with -zip and the decoded tables are compared entry by entry.",
     TRUST, "TLA+ specs (Pipeline/LRParse/LexScan + trace specs): table equality + cross-variant trace validation with TLC", "5/C12"),
 chk("C13", "model_checking",
     "GoccLex.tla defines all ASCII spellings of a code point and the layouts between tokens; TLC checks each spelling denotes the code point under Go's rule (LitConv.tla) and emits the spelling table; seeded respelling plans are applied to generated grammar files and the real gocc must produce byte-identical packages and exit status (either quoting style for string literals whose backslashes are plain escapes; a line comment ended by the end of the file among the layouts).",
     TRUST + " Grammar texts are tokenised by the harness (texts it rendered itself).", "TLA+ spelling model (GoccLex/LitConv) checked by TLC as plan generator + metamorphic runs of the real gocc", "5/C13"),
 chk("C17", "exploration",
     "Conc.tla states the design claim (per-goroutine private state, constant tables; invariant Independent) and enumerates interleavings at gate granularity - exhaustively for small gate counts, by TLC simulation beyond; every schedule is replayed on real generated parsers (plain and -zip) built with the race detector, gates (every Scan and action call) blocking until the schedule allows them; each goroutine's trace must equal its sequential trace, which TLC validates against the driver model; free-running stress with own lexer+parser per goroutine must reproduce sequential results with an empty race report.",
     "Trusted: Go's race detector for the absence of observed races. Interleavings are controlled at gate granularity only: exploration, not a proof over machine-level schedules.",
     "TLA+ spec (Conc.tla) enumerating schedules with TLC + schedule replay on the real code under the race detector + trace validation of the sequential traces", "5/C17"),
]

claimed = {c["property_id"] for c in checks}
na = [{"property_id": p["id"], "reason": "check not built yet (work in progress; see DESIGN.md section 5)"} for p in props if p["id"] not in claimed]

head = subprocess.run(["git", "-C", "/repo", "log", "--format=%H %s"], capture_output=True, text=True).stdout.splitlines()
fixes = [l.split()[0] for l in head if l.split(" ", 1)[1].startswith("fix:")]

m = {
 "version": 1,
 "setup_cmd": "cd /verif/harness && GOFLAGS=-mod=mod GOPROXY=off GOWORK=off go build -o /verif/bin/verif . && mkdir -p /verif/evidence /verif/replays",
 "hooks": {
   "guard": "verif",
   "enable": "no source hooks are needed: checks rebuild gocc from /repo's working tree, read tables by executing the generated code, use the generated code's own -debug_lexer/-debug_parser output as step traces and reach generator internals with `go test -overlay` (files under /verif/overlays). /repo commits are fix: commits only (listed in /verif/known_findings.json).",
   "baseline_off_cmd": "cd /repo && GOFLAGS=-mod=mod GOPROXY=off go test -vet=off -count=1 ./...",
   "source_commits": [],
   "add_only": True,
 },
 "engines": [
   {"name": "tla", "path": "/verif/spec", "serves_properties": sorted(claimed),
    "kind_free_text": "explicit TLA+ specifications checked with TLC: exhaustive design-level model checking, product reachability against tables read out of the real generated code, trace validation of real runs, TLC-evaluated reference oracles"},
   {"name": "harness", "path": "/verif/harness", "serves_properties": sorted(claimed),
    "kind_free_text": "Go driver: grammar/input generators, real gocc + go build runners, table dumpers, trace recorders, TLC runner, replay of counterexamples on the real code, evidence writer"},
 ],
 "checks": checks,
 "not_applicable": na,
 "notes": "Exit 2 of a check means an infrastructure problem (never a verdict). Known findings: /verif/known_findings.json. fix: commits in /repo: " + ", ".join(f[:7] for f in fixes),
}
json.dump(m, open('/verif/MANIFEST.json', 'w'), indent=1)
print("checks:", sorted(claimed))
