#!/usr/bin/env python3
"""Regenerates /verif/MANIFEST.json from the table below (one place to edit)."""
import json, subprocess

props = [json.loads(l) for l in open('/verif/properties.jsonl')]

def chk(pid, level, text, note, technique, design, thorough=True, engine="tla"):
    d = {
        "property_id": pid,
        "quick_cmd": "/verif/bin/verif check %s --tier quick" % pid,
        "evidence_file": "/verif/evidence/%s.json" % pid,
        "replay_cmd_template": "/verif/bin/verif replay {path}",
        "engine": engine,
        "level_claimed": {"category": level, "text": text, "design_ref": design},
        "level_note": note,
        "technique": technique,
    }
    if thorough:
        d["thorough_cmd"] = "/verif/bin/verif check %s --tier thorough" % pid
    return d

TRUST = "Trusted: TLC/SANY, the Go toolchain, unicode/utf8, the harness's atom computation and BNF rendering. Quantification over grammars is by seeded sampling plus curated shapes; per grammar the input quantifier is closed by exhaustive product exploration."

checks = [
 chk("C01", "model_checking",
     "Per generated grammar TLC explores the whole reachable product of the real DFA (read out of the compiled generated lexer) with the TLA+ pattern semantics (Regex.tla: Antimirov derivatives, '.'-as-fallback, regdef macro expansion, priority rule) - every text, not a sample; the Scan loop is model-checked against every automaton (MC_LexScan) and real Scan runs are validated against it and against the TLA+ reference tokenizer. Counterexamples are replayed on the real lexer before they are reported.",
     TRUST + " Domain restrictions (no nullable token pattern, conflation-free regdef classes because of known finding F4) are listed in the evidence file.",
     "TLA+ spec (Regex/LexProduct/LexRef/LexScan) + TLC product reachability against tables read from the generated code + trace validation", "5/C01"),
 chk("C08", "model_checking",
     "The Scan loop is an explicit TLA+ state machine (LexScan.tla, one action per loop iteration). TLC checks exact positions, tiling, last-live-state-wins and sticky EOF for ALL automaton outcomes and all texts up to the bound; real lexers (plain and -debug_lexer) are then run and every recorded trace (per Scan call / per loop iteration) is validated by TLC against the same model instantiated with the real automaton; token streams are also compared with the TLA+ reference position function.",
     TRUST, "TLA+ spec (LexScan/MC_LexScan/LexTrace/LexRef) + TLC exhaustive model checking + trace validation of real runs", "5/C08"),
]

claimed = {c["property_id"] for c in checks}
na = [{"property_id": p["id"], "reason": "check not built yet (work in progress; see DESIGN.md section 5)"} for p in props if p["id"] not in claimed]

head = subprocess.run(["git", "-C", "/repo", "log", "--format=%H %s"], capture_output=True, text=True).stdout.splitlines()
fixes = [l.split()[0] for l in head if l.split(" ", 1)[1].startswith("fix:")]

m = {
 "version": 1,
 "setup_cmd": "cd /verif/harness && GOFLAGS=-mod=mod GOPROXY=off GOWORK=off go build -o /verif/bin/verif . && mkdir -p /verif/evidence /verif/replays",
 "hooks": {
   "guard": "verif",
   "enable": "no source hooks are needed: checks rebuild gocc from /repo's working tree, read tables by executing the generated code, use the generated code's own -debug_lexer/-debug_parser output as step traces and reach generator internals with `go test -overlay` (files under /verif/overlays). /repo commits are fix: commits only (listed in /verif/known_findings.json).",
   "baseline_off_cmd": "cd /repo && GOFLAGS=-mod=mod GOPROXY=off go test -vet=off -count=1 ./...",
   "source_commits": [],
   "add_only": True,
 },
 "engines": [
   {"name": "tla", "path": "/verif/spec", "serves_properties": sorted(claimed),
    "kind_free_text": "explicit TLA+ specifications checked with TLC: exhaustive design-level model checking, product reachability against tables read out of the real generated code, trace validation of real runs, TLC-evaluated reference oracles"},
   {"name": "harness", "path": "/verif/harness", "serves_properties": sorted(claimed),
    "kind_free_text": "Go driver: grammar/input generators, real gocc + go build runners, table dumpers, trace recorders, TLC runner, replay of counterexamples on the real code, evidence writer"},
 ],
 "checks": checks,
 "not_applicable": na,
 "notes": "Exit 2 of a check means an infrastructure problem (never a verdict). Known findings: /verif/known_findings.json. fix: commits in /repo: " + ", ".join(f[:7] for f in fixes),
}
json.dump(m, open('/verif/MANIFEST.json', 'w'), indent=1)
print("checks:", sorted(claimed))
