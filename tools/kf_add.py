#!/usr/bin/env python3
"""kf_add.py <id> <property> <known|fixed> <commit or -> <what> <replay.json>
Adds (or replaces) an entry of /verif/known_findings.json. Never used at check time."""
import json, sys
fid, prop, status, commit, what, rp = sys.argv[1:7]
path = '/verif/known_findings.json'
try:
    kf = json.load(open(path))
except FileNotFoundError:
    kf = {"about": "Genuine defects of goccmack/gocc found by the checks. status=known: still present, reported as KNOWN-FINDING by the check of that property while it reproduces; status=fixed: repaired by the named fix: commit in /repo, replayed as an ordinary regression input (suppresses nothing).", "findings": []}
replay = json.load(open(rp))
replay['property'] = prop
entry = {"id": fid, "property": prop, "status": status, "what": what, "replay": replay}
if status == 'fixed':
    entry["commit"] = commit
    entry["line"] = "fixed: property=%s %s %s" % (prop, commit, what)
else:
    entry["line"] = "known: property=%s %s" % (prop, what)
kf["findings"] = [f for f in kf["findings"] if not (f["id"] == fid and f["property"] == prop)] + [entry]
json.dump(kf, open(path, 'w'), indent=1, ensure_ascii=False)
print("ok", fid, prop, status)
