#!/bin/bash
# eval_seed.sh <seed dir (with patch.diff, demo/, meta.json)> <check ids...>
# Confirms a seeded change and runs checks against it WITHOUT touching /repo: the change is applied
# in a scratch worktree of /repo's HEAD and the checks are pointed at it (VERIF_REPO); evidence and
# replay files of these runs go to <seed dir>/out. The worktree is removed afterwards.
set -u
SD=$(readlink -f $1); shift
CHECKS="$@"
export GOFLAGS=-mod=mod GOPROXY=off
WT=/tmp/evalwt.$$
OUT=$SD/eval.log
: > $OUT
git -C /repo worktree add -q --detach $WT HEAD >>$OUT 2>&1 || { echo "cannot create worktree"; exit 2; }
cleanup() { git -C /repo worktree remove --force $WT 2>/dev/null; }
trap cleanup EXIT
if ! git -C $WT apply $SD/patch.diff >>$OUT 2>&1; then echo "PATCH does not apply to HEAD"; exit 2; fi
if ! (cd $WT && go build ./... >>$OUT 2>&1); then echo "BUILD fails with the patch"; exit 2; fi
T=$( (cd $WT && go test -vet=off -count=1 ./... 2>&1) | grep -v "no test files" | grep -v "^ok" | grep -v "TestEmptyKeyword\|t2_test.go\|internal/test/t2\|^FAIL$" )
if [ -n "$T" ]; then echo "TESTS fail with the patch:"; echo "$T" | head -5; exit 2; fi
echo "confirmed: applies, builds, repository tests pass"
mkdir -p $SD/out
for c in $CHECKS; do
  R=$(VERIF_REPO=$WT VERIF_OUT=$SD/out timeout 2400 /verif/bin/verif check $c 2>&1)
  echo "$R" >> $OUT
  echo "check $c: $(echo "$R" | grep -c '^VIOLATION') violation(s); $(echo "$R" | grep -e '^RESULT' -e '^INFRA' | head -2 | sed 's/.*violations/violations/' | cut -c1-200)"
  echo "$R" | grep -m2 "what:" | cut -c1-300
done
